#!/bin/bash
# Installs the contract library used by the monitors next to the repository's interpreter packages,
# offline, into a git-ignored directory. Idempotent.
set -e
cd "$(dirname "$0")"
if [ ! -d .deps/icontract ]; then
  rm -rf .deps.tmp
  PIP_NO_INDEX=1 /venv/bin/pip install --quiet --no-index --find-links /opt/veriftools/wheels \
      --target .deps.tmp icontract >/dev/null 2>&1 || { echo "setup: icontract install failed" >&2; exit 3; }
  mv .deps.tmp .deps 2>/dev/null || rm -rf .deps.tmp
fi
exit 0
