"""Run driver: seeds, tiers, sharding over worker processes, watchdogs, three-valued verdicts, evidence.

    python -m vf.runner Cxx [--tier quick|thorough] [--seed N] [--jobs N] [--replay FILE] [--max-cases N]

Exit status: 0 held on what was observed, 1 violated (prints VIOLATION lines), 2 inconclusive, 3 setup error.
"""
import argparse
import hashlib
import importlib
import json
import os
import signal
import subprocess
import sys
import tempfile
import time
import traceback
from pathlib import Path

ROOT = Path(__file__).resolve().parent.parent
REPO = Path(os.environ.get('VERIF_REPO', '/repo')).resolve()
MAX_VIOLATION_LINES = 12
MAX_SAMPLES = 6


class CaseTimeout(Exception):
    pass


class Rejected(Exception):
    """Raised by a property module when the real loaders refuse a generated input with a documented error."""


def case_seed(seed, pid, idx):
    h = hashlib.sha256(f'{seed}:{pid}:{idx}'.encode()).digest()
    return int.from_bytes(h[:8], 'big')


class Ctx:
    """Per-case context handed to a property module: randomness, counters and the verdict sink."""

    def __init__(self, pid, seed, tier, case):
        import random
        import numpy as np
        self.pid, self.seed, self.tier, self.case = pid, seed, tier, case
        s = case_seed(seed, pid, case['idx'])
        self.rng = random.Random(s)
        self.nprng = np.random.default_rng(s)
        self.violations = []
        self.counters = {}
        self.classes = set()
        self.fingerprints = set()
        self.not_judged = {}
        self.rejected = None
        self.samples = []
        self.dump = {}
        self.known = []
        self.maxima = {}

    def violation(self, monitor, msg, witness=None, mechanism=None):
        if len(self.violations) < 40:
            self.violations.append({'monitor': monitor, 'msg': str(msg)[:2000], 'witness': _jsonable(witness),
                                    'mechanism': mechanism})

    def count(self, name, n=1):
        self.counters[name] = self.counters.get(name, 0) + n

    def cls(self, *names):
        for n in names:
            self.classes.add(str(n))

    def nontrivial(self, fingerprint):
        self.fingerprints.add(hashlib.sha1(json.dumps(_jsonable(fingerprint), sort_keys=True).encode())
                              .hexdigest()[:16])

    def maxstat(self, name, value):
        """Largest deviation observed by a monitor (reported in the evidence next to its tolerance)."""
        v = float(value)
        if v == v and v > self.maxima.get(name, float('-inf')):
            self.maxima[name] = v

    def skip(self, reason, n=1):
        self.not_judged[reason] = self.not_judged.get(reason, 0) + n

    def reject(self, reason):
        self.rejected = str(reason)[:300]

    def sample(self, obj):
        if len(self.samples) < 2:
            self.samples.append(_jsonable(obj))

    def result(self, status, wall, err=None):
        return {'idx': self.case['idx'], 'case': self.case, 'status': status, 'wall': round(wall, 3),
                'violations': self.violations, 'counters': self.counters, 'classes': sorted(self.classes),
                'fingerprints': sorted(self.fingerprints), 'not_judged': self.not_judged,
                'rejected': self.rejected, 'samples': self.samples, 'maxima': self.maxima, 'dump': _jsonable(self.dump), 'err': err}


def _jsonable(o, depth=0):
    import numpy as np
    if depth > 8:
        return repr(o)[:200]
    if o is None or isinstance(o, (bool, int, str)):
        return o
    if isinstance(o, float):
        if o != o or o in (float('inf'), float('-inf')):
            return repr(o)
        return o
    if isinstance(o, (np.integer,)):
        return int(o)
    if isinstance(o, (np.floating,)):
        return _jsonable(float(o))
    if isinstance(o, np.bool_):
        return bool(o)
    if isinstance(o, np.ndarray):
        return [_jsonable(x, depth + 1) for x in o.tolist()[:400]]
    if isinstance(o, dict):
        return {str(k): _jsonable(v, depth + 1) for k, v in list(o.items())[:400]}
    if isinstance(o, (list, tuple, set, frozenset)):
        return [_jsonable(x, depth + 1) for x in list(o)[:400]]
    return repr(o)[:300]


def load_repo():
    """Put the tree under test in front of every other location and check that gnpy really comes from it."""
    sys.path.insert(0, str(REPO))
    import gnpy
    got = Path(gnpy.__file__).resolve()
    if REPO not in got.parents:
        print(f'setup error: gnpy imported from {got}, not from {REPO}', file=sys.stderr)
        sys.exit(3)
    import logging
    logging.disable(logging.CRITICAL)
    import warnings
    warnings.simplefilter('ignore')
    import numpy as np
    np.seterr(all='ignore')


DOCUMENTED_ERRORS = ('ConfigurationError', 'EquipmentConfigError', 'NetworkTopologyError', 'ServiceError',
                     'DisjunctionError', 'SpectrumError', 'ParametersError')


def classify_exception(exc):
    """Decide who raised: the tree under test (gnpy) or the harness (vf); innermost of the two wins."""
    tb = traceback.extract_tb(exc.__traceback__)
    origin = 'harness'
    for fr in tb:
        f = fr.filename
        if str(REPO / 'gnpy') in f:
            origin = 'gnpy'
        elif str(ROOT / 'vf') in f:
            origin = 'harness'
    return origin


def run_one(mod, pid, seed, tier, case, timeout):
    ctx = Ctx(pid, seed, tier, case)
    from vf.gen import common as _gen_common
    _gen_common.TIER = tier
    t0 = time.time()

    def on_alarm(signum, frame):
        raise CaseTimeout()
    signal.signal(signal.SIGALRM, on_alarm)
    signal.alarm(int(timeout))
    try:
        mod.run_case(case, ctx)
        status, err = 'ok', None
    except CaseTimeout:
        status, err = 'timeout', None
    except Rejected as e:
        ctx.reject(e)
        status, err = 'ok', None
    except Exception as e:  # noqa
        signal.alarm(0)
        origin = classify_exception(e)
        tbs = ''.join(traceback.format_exception(type(e), e, e.__traceback__))[-3000:]
        if type(e).__name__ in DOCUMENTED_ERRORS:
            ctx.reject(f'{type(e).__name__}: {e}')
            status, err = 'ok', None
        elif origin == 'gnpy':
            mech = None
            if hasattr(mod, 'classify_exception'):
                mech = mod.classify_exception(e, tbs, ctx)
            ctx.violation('unexpected-exception', f'{type(e).__name__}: {e}', {'traceback': tbs}, mechanism=mech)
            status, err = 'ok', None
        else:
            status, err = 'harness-error', tbs
    finally:
        signal.alarm(0)
    return ctx.result(status, time.time() - t0, err)


def worker_main(args):
    if os.environ.get('VF_COVER'):
        from vf import cover
        cover.start(os.environ['VF_COVER'])
    load_repo()
    mod = importlib.import_module(f'vf.props.{args.prop.lower()}')
    cases = mod.plan(args.tier, args.seed)
    if args.max_cases:
        cases = cases[:args.max_cases]
    i, n = (int(x) for x in args.shard.split('/'))
    import faulthandler
    faulthandler.enable()
    timeout = getattr(mod, 'CASE_TIMEOUT', {'quick': 60, 'thorough': 180})[args.tier]
    with open(args.out, 'w') as out:
        for case in cases:
            if case['idx'] % n != i:
                continue
            res = run_one(mod, args.prop, args.seed, args.tier, case, timeout)
            out.write(json.dumps(res) + '\n')
            out.flush()
    return 0


def load_known():
    p = ROOT / 'known_findings.json'
    if not p.exists():
        return []
    return json.loads(p.read_text())['findings']


def master_main(args):
    t0 = time.time()
    pid = args.prop
    load_repo()
    mod = importlib.import_module(f'vf.props.{pid.lower()}')
    if args.replay:
        return replay_main(args, mod)
    cases = mod.plan(args.tier, args.seed)
    if args.max_cases:
        cases = cases[:args.max_cases]
    jobs = max(1, min(args.jobs, len(cases)))
    tmpdir = tempfile.mkdtemp(prefix=f'vf-{pid}-')
    procs = []
    env = dict(os.environ)
    for i in range(jobs):
        out = os.path.join(tmpdir, f'shard{i}.jsonl')
        cmd = [sys.executable, '-m', 'vf.runner', pid, '--worker', '--tier', args.tier, '--seed', str(args.seed),
               '--shard', f'{i}/{jobs}', '--out', out]
        if args.max_cases:
            cmd += ['--max-cases', str(args.max_cases)]
        procs.append((subprocess.Popen(cmd, env=env, cwd=str(ROOT), stdout=subprocess.DEVNULL,
                                       stderr=open(os.path.join(tmpdir, f'err{i}.txt'), 'w')), out, i))
    budget = getattr(mod, 'RUN_TIMEOUT', {'quick': 900, 'thorough': 7200})[args.tier]
    deadline = time.time() + budget
    results = {}
    worker_errs = []
    for p, out, i in procs:
        try:
            p.wait(timeout=max(1, deadline - time.time()))
        except subprocess.TimeoutExpired:
            p.kill()
            p.wait()
        if os.path.exists(out):
            for line in open(out):
                line = line.strip()
                if line:
                    try:
                        r = json.loads(line)
                        results[r['idx']] = r
                    except json.JSONDecodeError:
                        pass
        if p.returncode != 0:
            try:
                worker_errs.append(open(os.path.join(tmpdir, f'err{i}.txt')).read()[-1500:])
            except OSError:
                pass
    import shutil
    shutil.rmtree(tmpdir, ignore_errors=True)
    return conclude(args, mod, cases, results, worker_errs, time.time() - t0)


def conclude(args, mod, cases, results, worker_errs, wall):
    pid = args.prop
    known = [k for k in load_known() if k['property'] == pid and k['status'] == 'known']
    counters, classes, fps, not_judged = {}, set(), set(), {}
    rejected, samples = [], []
    lost, timeouts, herr = [], [], []
    maxima = {}
    viol, knownhits = [], {}
    for case in cases:
        r = results.get(case['idx'])
        if r is None:
            lost.append(case['idx'])
            continue
        if r['status'] == 'timeout':
            timeouts.append(case['idx'])
        if r['status'] == 'harness-error':
            herr.append((case['idx'], r['err']))
        for k, v in r['counters'].items():
            counters[k] = counters.get(k, 0) + v
        classes.update(r['classes'])
        for k, v in r.get('maxima', {}).items():
            maxima[k] = max(maxima.get(k, float('-inf')), v)
        fps.update(r['fingerprints'])
        for k, v in r['not_judged'].items():
            not_judged[k] = not_judged.get(k, 0) + v
        if r['rejected']:
            rejected.append(r['rejected'])
        for s in r['samples']:
            if len(samples) < MAX_SAMPLES:
                samples.append(s)
        for v in r['violations']:
            k = next((k for k in known if v.get('mechanism') and k['mechanism'] == v['mechanism']), None)
            if k:
                knownhits.setdefault(k['mechanism'], {'k': k, 'n': 0, 'first': (r, v)})['n'] += 1
            else:
                viol.append((r, v))
    n_eval = len(results)
    reasons = []
    if herr:
        reasons.append(f'harness error in {len(herr)} case(s): {herr[0][1][-600:]}')
    if lost:
        reasons.append(f'{len(lost)} case(s) produced no result (worker died): {worker_errs[:1]}')
    if len(timeouts) > max(1, 0.05 * len(cases)):
        reasons.append(f'{len(timeouts)} case(s) hit the watchdog')
    if len(rejected) > 0.25 * max(1, len(cases)):
        reasons.append(f'{len(rejected)} generated inputs rejected by the loaders: {rejected[:2]}')
    for name, need in getattr(mod, 'REQUIRED_COUNTERS', {}).items():
        need = need[args.tier] if isinstance(need, dict) else need
        if counters.get(name, 0) < need:
            reasons.append(f'deciding monitor "{name}" observed {counters.get(name, 0)} < {need} events')
    if len(fps) < 2:
        reasons.append(f'only {len(fps)} distinct non-trivial cases')

    # replay files
    replay_dir = ROOT / 'replay'
    lines = []
    seen = set()
    for r, v in viol:
        key = (v['monitor'], v.get('mechanism'))
        if key in seen and len(seen) >= 1 and sum(1 for _ in lines) >= MAX_VIOLATION_LINES:
            continue
        if key in seen:
            continue
        seen.add(key)
        replay_dir.mkdir(exist_ok=True)
        path = replay_dir / f'{pid}-{args.tier}-s{args.seed}-c{r["idx"]}-{len(lines)}.json'
        path.write_text(json.dumps({'property': pid, 'seed': args.seed, 'tier': args.tier, 'case': r['case'],
                                    'violation': v, 'all_violations_in_case': r['violations'],
                                    'inputs': r.get('dump')}, indent=1))
        lines.append((path, v))

    evidence = {
        'property_id': pid, 'tier': args.tier, 'seed': args.seed, 'level': 'exploration',
        'coverage': {
            'evaluations': n_eval,
            'distinct_nontrivial': len(fps),
            'rule': mod.RULE,
            'samples': samples or [{'note': 'no sample recorded'}],
            'monitor_events': dict(sorted(counters.items())),
            'situation_classes': sorted(classes),
            'largest_deviation_observed': {k: maxima[k] for k in sorted(maxima)},
            'not_judged': not_judged,
            'rejected_inputs': len(rejected),
            'rejected_examples': rejected[:3],
            'watchdog_timeouts': len(timeouts),
            'lost_cases': len(lost),
            'known_findings_reproduced': {m: h['n'] for m, h in knownhits.items()},
            'distinct_violation_kinds': len(lines),
            'verdict': 'violated' if lines else ('inconclusive' if reasons else 'held on what was observed'),
            'inconclusive_reasons': reasons,
        },
        'assumptions': getattr(mod, 'ASSUMPTIONS', []),
        'wall_s': round(wall, 2),
        'violations': len(viol),
    }
    # evidence of runs against another tree than /repo (self-test, seeded changes) must not replace the committed one
    evdir = Path(os.environ['VERIF_EVIDENCE_DIR']) if os.environ.get('VERIF_EVIDENCE_DIR') else ROOT / 'evidence'
    evdir.mkdir(exist_ok=True, parents=True)
    (evdir / f'{pid}.json').write_text(json.dumps(evidence, indent=1) + '\n')

    print(f'{pid} tier={args.tier} seed={args.seed}: {n_eval} cases, {len(fps)} distinct non-trivial, '
          f'{sum(counters.values())} monitor events, {len(viol)} violations, {wall:.1f}s')
    for k, v in sorted(counters.items()):
        print(f'  observed {k}: {v}')
    if not_judged:
        print(f'  not judged: {not_judged}')
    for m, h in knownhits.items():
        print(f'KNOWN-FINDING: property={pid} {h["k"]["what"]} [{h["n"]} witness(es) this run]')
    for path, v in lines:
        print(f'VIOLATION property={pid} replay={path}')
        print(f'  monitor={v["monitor"]}: {v["msg"][:400]}')
    if lines:
        return 1
    if reasons:
        for r in reasons:
            print(f'INCONCLUSIVE property={pid} reason={r}')
        return 2
    return 0


def replay_main(args, mod):
    data = json.loads(Path(args.replay).read_text())
    case = data['case']
    timeout = getattr(mod, 'CASE_TIMEOUT', {'quick': 60, 'thorough': 180})['thorough']
    r = run_one(mod, args.prop, data['seed'], data['tier'], case, timeout)
    known = [k for k in load_known() if k['property'] == args.prop and k['status'] == 'known']
    bad = 0
    for v in r['violations']:
        k = next((k for k in known if v.get('mechanism') and k['mechanism'] == v['mechanism']), None)
        if k:
            print(f'KNOWN-FINDING: property={args.prop} {k["what"]}')
        else:
            bad += 1
            print(f'VIOLATION property={args.prop} replay={args.replay}')
            print(f'  monitor={v["monitor"]}: {v["msg"][:1500]}')
    if r['status'] != 'ok':
        print(f'INCONCLUSIVE property={args.prop} reason=replay status {r["status"]} {r["err"]}')
        return 2
    print(f'replayed case {case["idx"]}: {len(r["violations"])} violation(s), counters {r["counters"]}')
    return 1 if bad else 0


def main():
    ap = argparse.ArgumentParser()
    ap.add_argument('prop')
    ap.add_argument('--tier', default=os.environ.get('VERIF_TIER', 'quick'), choices=['quick', 'thorough'])
    ap.add_argument('--seed', type=int, default=int(os.environ.get('VERIF_SEED', '0')))
    ap.add_argument('--jobs', type=int, default=int(os.environ.get('VERIF_JOBS', '16')))
    ap.add_argument('--replay')
    ap.add_argument('--max-cases', type=int, default=0)
    ap.add_argument('--worker', action='store_true')
    ap.add_argument('--shard', default='0/1')
    ap.add_argument('--out')
    args = ap.parse_args()
    args.prop = args.prop.upper()
    if args.worker:
        sys.exit(worker_main(args))
    sys.exit(master_main(args))


if __name__ == '__main__':
    main()
