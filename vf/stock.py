"""Driver of the "stock tests under monitors" workload (see vf/stock_plugin.py).

A scratch copy of the tree under test (gnpy/ + tests/, a few MB) is made with tempfile.mkdtemp, pytest runs there in a
subprocess with the plugin loaded, the copy is removed.  Nothing is written into the tree under test.
"""
import json
import os
import shutil
import subprocess
import sys
import tempfile
from pathlib import Path

ROOT = Path(__file__).resolve().parent.parent

# test files whose bodies run propagations / designs / spectrum assignment in-process (seconds on one core, measured)
GROUPS = {
    'propagation': ['tests/test_propagation.py', 'tests/test_info.py', 'tests/test_equalization.py',
                    'tests/test_roadm_restrictions.py', 'tests/test_multiband.py', 'tests/test_amplifier.py'],
    'science': ['tests/test_science_utils.py'],
    'requests': ['tests/test_path_computation_functions.py', 'tests/test_automaticmodefeature.py',
                 'tests/test_spectrum_assignment.py', 'tests/test_disjunction.py', 'tests/test_trx_mode_params.py'],
    'parser': ['tests/test_parser.py', 'tests/test_network_functions.py', 'tests/test_gain_mode.py'],
    'invocation': ['tests/test_invocation.py'],
}


def run_stock(repo, group, mons, timeout=600, select=None):
    """Runs one group of stock test files with the given monitors; returns the list of per-test records."""
    repo = Path(repo)
    tmp = Path(tempfile.mkdtemp(prefix='vf-stock-'))
    try:
        shutil.copytree(repo / 'gnpy', tmp / 'gnpy', ignore=shutil.ignore_patterns('__pycache__'))
        shutil.copytree(repo / 'tests', tmp / 'tests', ignore=shutil.ignore_patterns('__pycache__'))
        out = tmp / 'stock.jsonl'
        files = [f for f in GROUPS[group] if (tmp / f).exists()]
        env = dict(os.environ, VF_STOCK_OUT=str(out), VF_STOCK_MON=','.join(mons), PYTHONDONTWRITEBYTECODE='1',
                   PYTHONPATH=os.pathsep.join([str(tmp), str(ROOT), str(ROOT / '.deps')]))
        cmd = [sys.executable, '-m', 'pytest', '-q', '-p', 'no:cacheprovider', '-p', 'vf.stock_plugin',
               '-o', 'addopts=', '--no-header', '-W', 'ignore'] + files
        if select:
            cmd += ['-k', select]
        try:
            p = subprocess.run(cmd, cwd=str(tmp), env=env, capture_output=True, text=True, timeout=timeout)
            tail = (p.stdout or '')[-600:]
        except subprocess.TimeoutExpired:
            tail = 'timeout'
        recs = []
        if out.exists():
            for line in out.read_text().splitlines():
                try:
                    recs.append(json.loads(line))
                except json.JSONDecodeError:
                    pass
        # check that the copy, not an installed gnpy, was exercised
        return recs, tail
    finally:
        shutil.rmtree(tmp, ignore_errors=True)


QUICK_GROUPS = {'C01': ['invocation'], 'C02': ['invocation'], 'C06': ['invocation'], 'C07': ['invocation', 'requests'],
                'C14': ['requests', 'invocation'], 'C15': ['requests', 'invocation']}


def stock_cases(tier, first_idx, pid):
    """Case descriptions of the stock-suite workload for property `pid` (appended to the module's plan)."""
    groups = QUICK_GROUPS[pid] if tier == 'quick' else list(GROUPS)
    return [{'idx': first_idx + k, 'kind': 'stock', 'group': g} for k, g in enumerate(groups)]


def run_stock_case(case, ctx, pid):
    from vf.runner import REPO
    recs, tail = run_stock(REPO, case['group'], [pid], timeout=280 if ctx.tier == 'quick' else 1500)
    merge_into(ctx, pid, recs, tail, case['group'])
    if not ctx.samples:
        ctx.sample({'kind': 'stock tests under monitors', 'group': case['group'], 'tests': len(recs),
                    'tests_with_element_events': sum(1 for r in recs if r['events'])})


def merge_into(ctx, pid, recs, tail, group):
    """Folds the per-test records of one monitor into the case context of property `pid`."""
    n_tests = n_events = 0
    for r in recs:
        m = r['monitors'].get(pid)
        if m is None:
            continue
        n_tests += 1
        n_events += r['events']
        for k, v in m['counters'].items():
            ctx.count(f'stock_{k}', v)
        for k, v in m['not_judged'].items():
            ctx.skip(f'stock:{k}', v)
        for v in m['violations']:
            ctx.violation('stock:' + v['monitor'], f'[{r["test"]}] {v["msg"]}', v.get('witness'))
    ctx.count('stock_tests_run', n_tests)
    ctx.count('stock_tests_with_events', sum(1 for r in recs if r['events'] or r['monitors'].get(pid, {}).get('counters')))
    if not n_tests:
        # nothing observed is not "held": the required counter stock_tests_run makes the run inconclusive
        ctx.skip(f'stock-suite-produced-no-record:{group}')
        return
    ctx.nontrivial(('stock', group, n_tests, n_events))
    ctx.cls(f'stock:{group}')


if __name__ == '__main__':
    # diagnostic: python -m vf.stock <group> [monitors]   (tree from VERIF_REPO, default /repo)
    repo = os.environ.get('VERIF_REPO', '/repo')
    g = sys.argv[1]
    mons = (sys.argv[2] if len(sys.argv) > 2 else 'C01,C02,C06,C07,C14,C15').split(',')
    recs, tail = run_stock(repo, g, mons)
    tot = {}
    for r in recs:
        for m, d in r['monitors'].items():
            t = tot.setdefault(m, {'events': 0, 'viol': 0, 'skips': {}})
            t['events'] += sum(d['counters'].values())
            t['viol'] += len(d['violations'])
            for k, v in d['not_judged'].items():
                t['skips'][k] = t['skips'].get(k, 0) + v
            for v in d['violations'][:2]:
                print(m, r['test'], v['monitor'], v['msg'][:300])
    print(len(recs), 'tests;', sum(1 for r in recs if r['events']), 'with element events;', tot)
    print(tail[-300:])
