"""C01 - per-channel power always splits exactly into signal + ASE + NLI.

Monitors: (a) shadow model in longdouble following random operation sequences applied to real
SpectralInformation objects; (b) conservation checker over every SpectralInformation operation and every element
crossing recorded while real paths are propagated; (c) receiver identity 1/GSNR = 1/OSNR_ASE + 1/SNR_NLI.
"""
import numpy as np

from gnpy.core import info
from gnpy.core.utils import db2lin

from vf import attach, workload as W
from vf.gen import common as G
from vf.props import _prop_common as P
from vf import stock

ID = 'C01'
RULE = ('cases: "ops" = random sequences (<=30) of attenuate/gain/add_ase/add_nli/demux+mux applied to generated '
        'arbitrary spectra and followed by a longdouble shadow model; "net" = generated designed networks (single '
        'band, multiband, Raman, all NLI methods) propagated with generated spectra. Non-trivial: an ops sequence '
        'with >=2 channels and at least one add_ase, one add_nli and one demux/mux; a propagation crossing >=1 '
        'amplifier and >=1 fibre with >=2 channels. Distinct: hash of the operation list / of (topology, route, '
        'spectrum).')
ASSUMPTIONS = ['launch power per channel <= +10 dBm (the property\'s own bound)',
               'in the operation fuzz the injected NLI is <= 0.5 x channel power',
               'floating point: |s+a+n-1| <= 1e-12, operation laws to 1e-12 relative']
REQUIRED_COUNTERS = {'stock_tests_run': 5, 'stock_element_events': 500, 'element_events': 50, 'op_events': 200, 'receiver_identity_checks': 20,
                     'shadow_steps': 200, 'receiver_reevaluations': 20}
CASE_TIMEOUT = {'quick': 400, 'thorough': 1800}


def plan(tier, seed):
    n_ops, n_net = (96, 160) if tier == 'quick' else (1200, 2400)
    cases = [{'idx': i, 'kind': 'ops'} for i in range(n_ops)]
    cases += [{'idx': n_ops + i, 'kind': 'net', 'flavour': P.flavour(i)} for i in range(n_net)]
    # the repository's own tests as one more workload, with the monitors on
    cases += stock.stock_cases(tier, len(cases), ID)
    return cases


# ---------------------------------------------------------------------------------------------------------------

def check_shares(ctx, snap, where):
    tot = snap.sr + snap.ar + snap.nr
    dev = np.abs(tot - 1)
    if not np.all(np.isfinite(tot)) or dev.max() > 1e-12:
        ctx.violation('shares-sum', f'{where}: signal+ase+nli ratios sum to 1{np.nanmax(dev):+.3e} (max dev)',
                      {'where': where, 'snap': snap.brief()})
        return False
    for name, arr in (('signal', snap.sr), ('ase', snap.ar), ('nli', snap.nr)):
        if arr.min() < -1e-15 or arr.max() > 1 + 1e-15:
            ctx.violation('share-range', f'{where}: {name} share outside [0,1]: min {arr.min():.3e} max '
                          f'{arr.max():.3e}', {'where': where, 'snap': snap.brief()})
            return False
    if snap.pch.min() < 0 or not np.all(np.isfinite(snap.pch)):
        ctx.violation('power-range', f'{where}: negative or non-finite channel power', {'snap': snap.brief()})
        return False
    return True


def close(a, b, rel=1e-12, absol=0.0):
    a = np.asarray(a, dtype=float)
    b = np.asarray(b, dtype=float)
    return a.shape == b.shape and bool(np.all(np.abs(a - b) <= rel * np.maximum(np.abs(a), np.abs(b)) + absol))


def check_op(ctx, op, where):
    """Conservation law of one recorded SpectralInformation operation."""
    b, a, name = op['before'], op['after'], op['op']
    ctx.count('op_events')
    ctx.count(f'op_{name}')
    if not check_shares(ctx, a, f'{where} after {name}'):
        return
    tiny = 1e-300
    if name in ('apply_attenuation_lin', 'apply_gain_lin'):
        f = np.broadcast_to(op['arg'], b.pch.shape)
        if not (np.array_equal(a.sr, b.sr) and np.array_equal(a.ar, b.ar) and np.array_equal(a.nr, b.nr)):
            ctx.violation('scale-touches-ratios', f'{where}: {name} changed a share', {'b': b.brief(), 'a': a.brief()})
        elif not close(a.pch, b.pch * f, 1e-13):
            ctx.violation('scale-factor', f'{where}: {name} did not scale total power by its factor',
                          {'b': b.brief(), 'a': a.brief(), 'factor': f[:6]})
    elif name == 'add_ase':
        x = np.broadcast_to(op['arg'], b.pch.shape)
        if np.any(np.asarray(x, dtype=float) < 0):
            # a noise addition is a power: a negative one takes power out of the bookkeeping (and, on a spectrum that
            # carries no ASE yet, makes the ASE share negative)
            ctx.violation('negative-noise-added', f'{where}: add_ase called with a negative power '
                          f'({float(np.min(x)):.3e} W)', {'b': b.brief(), 'x': x[:6]})
            return
        ok = close(a.pch, b.pch + x, 1e-12) and close(a.pch * a.sr, b.pch * b.sr, 1e-12, tiny) \
            and close(a.pch * a.nr, b.pch * b.nr, 1e-12, tiny) and close(a.pch * a.ar, b.pch * b.ar + x, 1e-12, tiny)
        if not ok:
            ctx.violation('add-ase-law', f'{where}: add_ase must raise total and ASE power by x and leave signal and '
                          'NLI power unchanged', {'b': b.brief(), 'a': a.brief(), 'x': x[:6]})
    elif name == 'add_nli':
        x = np.broadcast_to(op['arg'], b.pch.shape)
        if np.any(np.asarray(x, dtype=float) < 0):
            ctx.violation('negative-noise-added', f'{where}: add_nli called with a negative power '
                          f'({float(np.min(x)):.3e} W)', {'b': b.brief(), 'x': x[:6]})
            return
        ok = np.array_equal(a.pch, b.pch)
        # OSNR_ASE unchanged: s/a ratio preserved (cross-multiplied to stay finite when ase == 0)
        ok = ok and close(a.sr * b.ar, b.sr * a.ar, 1e-12, tiny)
        ok = ok and bool(np.all(a.pch * a.nr >= b.pch * b.nr * (1 - 1e-12) - tiny))
        # transfer of x from total to nli: new nli power = old nli * (1 - x/p) + x
        ok = ok and close(a.pch * a.nr, b.pch * b.nr * (1 - x / b.pch) + x, 1e-12, tiny)
        if not ok:
            ctx.violation('add-nli-law', f'{where}: add_nli must keep total power and OSNR_ASE and move x into NLI',
                          {'b': b.brief(), 'a': a.brief(), 'x': x[:6]})
    elif name == 'select':
        sel = op['arg'].astype(bool)
        exp = [t for t, s in zip(P.chan_tuples(b), sel) if s]
        if P.chan_tuples(a) != exp:
            ctx.violation('demux-law', f'{where}: band split lost, duplicated or altered a channel',
                          {'b': b.brief(), 'a': a.brief()})
    elif name == '__add__':
        exp = sorted(P.chan_tuples(b) + P.chan_tuples(op['arg']), key=lambda t: t[0])
        if P.chan_tuples(a) != exp:
            ctx.violation('mux-law', f'{where}: band merge lost, duplicated or altered a channel',
                          {'b': b.brief(), 'a': a.brief()})


def check_receiver(ctx, trx, where):
    # the figures reported to the user are judged always; the line-only ("raw") triple where the receiver keeps one
    figures = [('reported', trx.snr, trx.osnr_ase, trx.osnr_nli)]
    if all(hasattr(trx, a) for a in ('raw_snr', 'raw_osnr_ase', 'raw_osnr_nli')):
        figures.insert(0, ('raw', trx.raw_snr, trx.raw_osnr_ase, trx.raw_osnr_nli))
    for tag, snr, osnr, nli in figures:
        lhs = db2lin(-np.asarray(snr, dtype=float))
        rhs = db2lin(-np.asarray(osnr, dtype=float)) + db2lin(-np.asarray(nli, dtype=float))
        ctx.count('receiver_identity_checks')
        if not close(lhs, rhs, 1e-9):
            ctx.violation('receiver-identity', f'{where}: {tag} 1/GSNR != 1/OSNR_ASE + 1/SNR_NLI '
                          f'(max rel dev {np.max(np.abs(lhs - rhs) / rhs):.3e})',
                          {'snr': snr[:6], 'osnr_ase': osnr[:6], 'osnr_nli': nli[:6]})
    # (compared as sums, not as a difference: on a noise-dominated line 1/GSNR and 1/OSNR_ASE are huge and nearly equal)
    lhs = db2lin(-np.asarray(trx.snr_01nm, dtype=float))
    rhs = db2lin(-np.asarray(trx.osnr_ase_01nm, dtype=float)) + \
        db2lin(-(np.asarray(trx.osnr_nli, dtype=float) - 10 * np.log10(12.5e9 / np.asarray(trx.baud_rate))))
    ctx.count('receiver_identity_checks')
    if not close(lhs, rhs, 1e-9):
        ctx.violation('receiver-identity', f'{where}: 0.1nm figures inconsistent with SNR_NLI',
                      {'snr_01nm': trx.snr_01nm[:6], 'osnr_ase_01nm': trx.osnr_ase_01nm[:6]})


# ---------------------------------------------------------------------------------------------------------------

def run_ops(case, ctx):
    rng = ctx.rng
    attach.install()
    for _ in range(12):
        carriers = G.gen_carriers(rng, n_max=40, n_min=2, max_dbm=10.0, min_dbm=-30.0)
        if len(carriers) < 2:
            continue
        # powers handed over in single precision (measurement data): the bookkeeping identity is about the three
        # shares, which must stay consistent whatever the precision of the powers; the double-precision shadow model
        # and the scaling laws are judged on double-precision inputs only
        f32 = rng.random() < 0.15
        si = G.carriers_to_si(carriers, shuffle_rng=rng, pch_dtype=np.float32 if f32 else None)
        ld = np.longdouble
        S = {float(f): ld(p) for f, p in zip(si.frequency, si.pch)}
        A = {f: ld(0) for f in S}
        N = {f: ld(0) for f in S}
        nops = rng.randint(5, 30)
        log = []
        kinds = set()
        attach.reset(record_ops=True)
        for step in range(nops):
            op = G.pick(rng, ['att', 'gain', 'ase', 'nli', 'split', 'att_vec', 'ase', 'nli', 'fork'])
            n = si.number_of_channels
            fr = [float(f) for f in si.frequency]
            if op == 'att':
                x = G.rnd(rng, 0, 25, 4)
                si.apply_attenuation_db(x)
                k = ld(1) / ld(db2lin(x))
                for f in fr:
                    S[f] *= k; A[f] *= k; N[f] *= k  # noqa
            elif op == 'att_vec':
                x = np.array([G.rnd(rng, 0, 12, 4) for _ in range(n)])
                lin = 1 / db2lin(x)
                si.apply_attenuation_lin(lin)
                for f, k in zip(fr, lin):
                    S[f] *= ld(k); A[f] *= ld(k); N[f] *= ld(k)  # noqa
            elif op == 'gain':
                x = np.array([G.rnd(rng, 5, 30, 4) for _ in range(n)]) if rng.random() < 0.5 else \
                    np.full(n, G.rnd(rng, 5, 30, 4))
                si.apply_gain_db(x)
                for f, k in zip(fr, db2lin(x)):
                    S[f] *= ld(k); A[f] *= ld(k); N[f] *= ld(k)  # noqa
            elif op == 'ase':
                frac = np.array([10 ** rng.uniform(-7, -0.5) for _ in range(n)])
                x = si.pch * frac
                si.add_ase(x)
                for f, v in zip(fr, x):
                    A[f] += ld(v)
            elif op == 'nli':
                frac = np.array([10 ** rng.uniform(-7, np.log10(0.5)) for _ in range(n)])
                p = si.pch
                x = p * frac
                si.add_nli(x)
                for f, v, pp in zip(fr, x, p):
                    r = ld(v) / ld(pp)
                    S[f] *= (1 - r); A[f] *= (1 - r); N[f] = N[f] * (1 - r) + ld(v)  # noqa
            elif op == 'fork':
                # the same spectrum handed to two consumers (a broadcast to two directions, two band amplifiers fed
                # from one input): what one of them does to its copy must not show in the other one nor in the parent
                whole = {'f_min': si.frequency[0] - 1e12, 'f_max': si.frequency[-1] + 1e12}
                part = {'f_min': si.frequency[0] - 1e12, 'f_max': si.frequency[n // 2] + si.slot_width[n // 2]}
                c1 = info.demuxed_spectral_information(si, G.pick(rng, [whole, part]))
                c2 = info.demuxed_spectral_information(si, G.pick(rng, [whole, part]))
                if c1 is None or c2 is None:
                    continue
                before_parent, before_c2 = P.chan_tuples(attach.Snap(si)), P.chan_tuples(attach.Snap(c2))
                c1.add_ase(np.asarray(c1.pch, dtype=float) * 0.01)       # (noise powers in double precision, as the
                c1.add_nli(np.asarray(c1.pch, dtype=float) * 0.02)       # elements compute them)
                c1.apply_attenuation_db(3.0)
                ctx.count('fork_checks')
                check_shares(ctx, attach.Snap(c1), f'ops step {step} (fork, first consumer)')
                if P.chan_tuples(attach.Snap(si)) != before_parent or P.chan_tuples(attach.Snap(c2)) != before_c2:
                    ctx.violation('fork-aliasing', 'operations on one band-split copy of a spectrum changed the parent '
                                  'spectrum or a sibling copy (shared arrays)')
                    break
            elif op == 'split':
                if n < 2:
                    continue
                edges = sorted({si.frequency[rng.randrange(1, n)] - si.slot_width[0] for _ in range(rng.randint(1, 2))})
                lo = si.frequency[0] - 1e12
                bands = []
                for e in edges + [si.frequency[-1] + 1e12]:
                    bands.append({'f_min': lo, 'f_max': e})
                    lo = e
                parts = [info.demuxed_spectral_information(si, b) for b in bands]
                parts = [p for p in parts if p is not None]
                kept = sum(p.number_of_channels for p in parts)
                rng.shuffle(parts)
                if not parts:
                    continue
                si = info.muxed_spectral_information(parts)
                # channels straddling an edge are legitimately dropped by the band filter
                for f in fr:
                    if f not in set(float(x) for x in si.frequency):
                        S.pop(f); A.pop(f); N.pop(f)  # noqa
                if kept != si.number_of_channels:
                    ctx.violation('mux-count', 'mux returned a different number of channels than its parts hold')
            kinds.add(op)
            log.append(op)
            ctx.count('shadow_steps')
            # compare with the shadow
            fr = [float(f) for f in si.frequency]
            tot = np.array([float(S[f] + A[f] + N[f]) for f in fr])
            snap = attach.Snap(si)
            if not check_shares(ctx, snap, f'ops step {step} ({op})' + (' [float32 powers]' if f32 else '')):
                break
            if f32:
                ctx.count('single_precision_steps')
                continue
            ok = close(snap.pch, tot, 1e-10) and close(snap.pch * snap.sr, [float(S[f]) for f in fr], 1e-10, 1e-300) \
                and close(snap.pch * snap.ar, [float(A[f]) for f in fr], 1e-10, 1e-300) \
                and close(snap.pch * snap.nr, [float(N[f]) for f in fr], 1e-10, 1e-300)
            if not ok:
                ctx.violation('shadow-model', f'after {log}: real object disagrees with the longdouble S/A/N model',
                              {'ops': log, 'snap': snap.brief(), 'S': [float(S[f]) for f in fr[:6]],
                               'A': [float(A[f]) for f in fr[:6]], 'N': [float(N[f]) for f in fr[:6]]})
                break
            if si.number_of_channels < 2:
                break
        for o in attach.OPS:
            if not f32:
                check_op(ctx, o, 'ops')
        attach.reset()
        if {'ase', 'nli', 'split'} <= kinds:
            ctx.nontrivial(('ops', log, len(carriers), carriers[0]['frequency']))
        ctx.cls('ops:' + '+'.join(sorted(kinds)))
        if not ctx.samples:
            ctx.sample({'kind': 'ops', 'channels': len(carriers), 'sequence': log})
        if ctx.violations:
            return


def run_net(case, ctx):
    rng = ctx.rng
    scen = P.build_scenario(rng, case['flavour'], ctx, max_launch_dbm=10.0)
    if scen is None:
        return
    for job in scen['jobs']:
        path, req = job['path'], job['req']
        try:
            p, si, events, ops = W.propagate_copy(path, req, scen['equipment'], record_ops=True)
        except W.NoChannelInBand:
            ctx.skip('no-channel-in-band')
            continue
        n_amp = sum(1 for e in events if e['type'] in ('Edfa', 'Multiband_amplifier') and e['depth'] == 0)
        n_fib = sum(1 for e in events if e['type'] in ('Fiber', 'RamanFiber'))
        for e in events:
            ctx.count('element_events')
            if e['after'] is not None:
                check_shares(ctx, e['after'], f'after {e["type"]} {e["uid"]}')
        for o in ops:
            check_op(ctx, o, 'net')
        check_receiver(ctx, p[-1], f'receiver {p[-1].uid}')
        # the mode search re-evaluates one propagation with the Tx OSNR of several modes: the figures must stay
        # consistent however often the receiver (or the transmitter end) is re-evaluated
        for k in range(rng.randint(1, 3)):
            added = [rng.choice([None, round(rng.uniform(25, 45), 1)]) for _ in range(rng.randint(1, 3))]
            if all(a is None for a in added):
                added[0] = 35.0
            for t in (p[-1], p[0]):
                t.update_snr(*added)
                ctx.count('receiver_reevaluations')
                check_receiver(ctx, t, f'{t.uid} re-evaluated ({k + 2}. time) with added OSNR {added}')
        ctx.cls(f'net:{case["flavour"]}', f'amps:{min(n_amp, 5)}', f'nli:{scen["nli_method"]}',
                f'raman:{scen["raman"]}')
        if n_amp >= 1 and n_fib >= 1 and si.number_of_channels >= 2:
            ctx.nontrivial(('net', job['fp']))
        if not ctx.samples:
            ctx.sample({'kind': 'net', 'flavour': case['flavour'], 'route': [e.uid for e in path][:40],
                        'channels': int(si.number_of_channels), 'spectrum': job['spec_desc']})
        if ctx.violations:
            ctx.dump.update(scen['dump'])
            return


def run_case(case, ctx):
    if case['kind'] == 'stock':
        stock.run_stock_case(case, ctx, ID)
    elif case['kind'] == 'ops':
        run_ops(case, ctx)
    else:
        run_net(case, ctx)
