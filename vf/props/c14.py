"""C14 - spectrum assignment never double-books a slot and honours what the user fixed.

Monitor: in two thirds of the histories the real assignment routine is stepped one request at a time; after every step
the request outcome and a copy of every OMS bitmap are recorded; in the others it is called once with the whole batch
(as planning() does) and only the outcomes and the final maps are recorded.  Both are replayed against an executable
allocator model (sets of slot indices
per OMS): disjointness in both directions, same range on every OMS of the path, inside usable band and guard bands,
enough slots, first-fit position by brute force on the pre-state, fixed N/M used as given or blocked, blocked =>
no bitmap change, final occupancy = union of the accepted assignments.
"""
import math
from copy import deepcopy

from gnpy.core.elements import Fused, Roadm, Transceiver
from gnpy.core.exceptions import SpectrumError, ServiceError
from gnpy.core.parameters import SimParams
from gnpy.tools import worker_utils
from gnpy.tools.worker_utils import planning
from gnpy.topology.request import PathRequest
from gnpy.topology.spectrum_assignment import (OMS, BitmapValue, pth_assign_spectrum, frequency_to_n,
                                               build_path_oms_id_list)

from vf import stock
from vf.gen import common as G, services as S
from vf.props import _prop_common as P

ID = 'C14'
RULE = ('"synthetic": histories of 1..40 requests (free / fixed N / fixed M / fixed N and M, single and multi-slot, '
        'sufficient or insufficient reserved spectrum, bidirectional or with an empty reverse path) over 1..6 OMS '
        'pairs with generated usable-band layouts on a small grid so that the spectrum fills up; "planning": generated '
        'meshes and service batches with large bandwidths through the real planning() flow. Each request of each '
        'history is one observation. Non-trivial: a history in which at least one request is accepted and one is '
        'blocked, or a multi-slot / fixed-slot request. Distinct: hash of (layout, history).')
ASSUMPTIONS = ['first-fit optimality is judged for requests whose slots are all left free ({N: null, M: null})',
               'the model reads the guard-band limits and usable slots from the initial maps (C15 judges those)']
REQUIRED_COUNTERS = {'requests_stepped': 300, 'accepted': 100, 'blocked': 20, 'first_fit_checks': 60,
                     'fixed_slot_requests': 40, 'multi_slot_requests': 30, 'blocked_no_change_checks': 20,
                     'final_occupancy_checks': 20, 'batched_calls': 10, 'requests_in_batched_calls': 100,
                     'stock_tests_run': 5, 'stock_assignment_calls': 20, 'stock_requests_in_calls': 100}
CASE_TIMEOUT = {'quick': 400, 'thorough': 1800}
FREE, OCC, UNU = BitmapValue.FREE, BitmapValue.OCCUPIED, BitmapValue.UNUSABLE


def plan(tier, seed):
    n = 900 if tier == 'quick' else 9000
    return [{'idx': i, 'kind': 'synthetic' if i % 4 else 'planning'} for i in range(n)] + stock.stock_cases(tier, n, ID)


# ------------------------------------------------------------------------------------------------------------

def snapshot(oms_list):
    return [list(o.spectrum_bitmap.bitmap) for o in oms_list]


class Model:
    """Executable allocator model over the initial maps."""

    def __init__(self, oms_list):
        b0 = oms_list[0].spectrum_bitmap
        self.index = list(b0.freq_index)
        self.lo, self.hi = b0.freq_index_min, b0.freq_index_max
        self.usable = [{n for n, v in zip(o.spectrum_bitmap.freq_index, o.spectrum_bitmap.bitmap) if v == FREE}
                       for o in oms_list]
        self.initial = snapshot(oms_list)
        self.occupied = [set() for _ in oms_list]

    def free_on(self, oms_ids, n):
        return all(n in self.usable[k] and n not in self.occupied[k] for k in oms_ids)

    def range_free(self, oms_ids, start, stop):
        return start >= self.lo and stop <= self.hi and all(self.free_on(oms_ids, n) for n in range(start, stop + 1))

    def first_fit(self, oms_ids, m, extra=()):
        for n0 in self.index:
            start, stop = n0, n0 + 2 * m - 1
            if stop > self.index[-1]:
                break
            if self.range_free(oms_ids, start, stop) and not any(start <= x <= stop for x in extra):
                return n0 + m
        return None

    def assign(self, oms_ids, ranges):
        for k in oms_ids:
            for a, b in ranges:
                self.occupied[k].update(range(a, b + 1))

    def expected_bitmap(self, k):
        return [OCC if (n in self.occupied[k]) else v for n, v in zip(self.index, self.initial[k])]


def judge_step(ctx, model, oms_list, oms_ids, slots, rq, nb_wl, per_m, before, after, err):
    """slots: the user's list of (N, M); rq: the request after the step."""
    ctx.count('requests_stepped')
    blocked = getattr(rq, 'blocking_reason', None)
    fixed = any(n is not None or m is not None for n, m in slots)
    if fixed:
        ctx.count('fixed_slot_requests')
    if len(slots) > 1:
        ctx.count('multi_slot_requests')
    where = f'request {rq.request_id} slots {slots} needing {nb_wl} x M{per_m} on OMS {sorted(oms_ids)}'
    if err is not None:
        mech = None
        if isinstance(err, SpectrumError) and 'M must be positive' in str(err):
            # witness predicate: an earlier fixed M already exceeds the demand and a free slot follows
            need = nb_wl * per_m
            if any(m is not None and m > 0 for _, m in slots) and any(m is None for _, m in slots) and \
                    sum(m for _, m in slots if m is not None) >= need:
                mech = 'negative-remaining-slots-after-oversized-fixed-m'
        ctx.violation('assignment-raised', f'{where}: {type(err).__name__}: {err}', mechanism=mech)
        return False
    changed = [k for k in range(len(oms_list)) if before[k] != after[k]]
    if blocked is not None or rq.N is None:
        ctx.count('blocked')
        ctx.count('blocked_no_change_checks')
        if rq.N is not None or rq.M is not None:
            ctx.violation('blocked-with-labels', f'{where}: blocked ({blocked}) but N/M = {rq.N}/{rq.M}')
        if blocked is None:
            ctx.violation('no-labels-no-reason', f'{where}: no N/M and no blocking reason')
        if changed:
            mech = None
            if len(oms_ids) == 1 and len(slots) > 1 and changed == sorted(oms_ids):
                mech = 'blocked-request-single-oms-map-aliased'
            ctx.violation('blocked-changed-spectrum', f'{where}: blocked ({blocked}) but the maps of OMS {changed} '
                          f'changed', mechanism=mech)
            # resynchronise the model with the (wrong) real state so that later steps are judged on their own
            for k in changed:
                for n, v0, v1 in zip(model.index, before[k], after[k]):
                    if v0 == FREE and v1 == OCC:
                        model.occupied[k].add(n)
            return False
        # completeness for fully free single-slot requests
        if slots == [(None, None)] and blocked == 'NO_SPECTRUM':
            ctx.count('first_fit_checks')
            n = model.first_fit(oms_ids, nb_wl * per_m)
            if n is not None:
                ctx.violation('blocked-though-free', f'{where}: blocked with NO_SPECTRUM but centre {n} is free on '
                              'every OMS of the path')
        return True
    ctx.count('accepted')
    N, M = list(rq.N), list(rq.M)
    if len(N) != len(M) or any(not isinstance(x, int) for x in N + M) or any(m <= 0 for m in M):
        ctx.violation('labels-malformed', f'{where}: accepted with N={N}, M={M}')
        return False
    ranges = [(n - m, n + m - 1) for n, m in zip(N, M)]
    for i, (a, b) in enumerate(ranges):
        for c, d in ranges[i + 1:]:
            if a <= d and c <= b:
                ctx.violation('self-overlap', f'{where}: assigned ranges {ranges} overlap each other')
                return False
    for a, b in ranges:
        if a < model.lo or b > model.hi:
            ctx.violation('outside-guard-band', f'{where}: range [{a}, {b}] outside the guard-band limits '
                          f'[{model.lo}, {model.hi}]')
            return False
        for k in oms_ids:
            bad = [n for n in range(a, b + 1) if n not in model.usable[k]]
            if bad:
                ctx.violation('outside-usable-band', f'{where}: slots {bad[:4]} are not usable on OMS {k}')
                return False
            dbl = [n for n in range(a, b + 1) if n in model.occupied[k]]
            if dbl:
                ctx.violation('double-booking', f'{where}: slots {dbl[:6]} of range [{a}, {b}] are already occupied on '
                              f'OMS {k}', {'N': N, 'M': M})
                return False
    if sum(m // per_m for m in M) < nb_wl:
        ctx.violation('not-enough-slots', f'{where}: accepted with M={M}: room for {sum(m // per_m for m in M)} '
                      f'channels, {nb_wl} needed')
    # user-fixed values used as given
    if len(N) != len(slots):
        mech = None
        kept = list(zip(N, M))
        dropped = [s for s in slots if s[0] is not None and s[1] is not None and s not in kept]
        if dropped and all(not model.range_free(oms_ids, n - m, n + m - 1) for n, m in dropped):
            mech = 'occupied-fixed-slot-silently-dropped'
        elif all(s[1] is None for s in slots if s not in kept) or \
                all((s[0] is None or s[0] in N) and (s[1] is None or s[1] in M) for s in slots if s[1] is not None):
            # only free entries were left out because the demand was already covered: nothing fixed was ignored
            mech = 'ok'
        if mech != 'ok':
            ctx.violation('fixed-slot-not-used', f'{where}: accepted with N={N}, M={M}: a user-fixed slot was neither '
                          'used nor the request blocked', mechanism=mech)
    else:
        for (un, um), n, m in zip(slots, N, M):
            if (un is not None and un != n) or (um is not None and um != m):
                ctx.violation('fixed-slot-changed', f'{where}: user asked (N, M) = ({un}, {um}), got ({n}, {m})')
    # first fit
    if slots == [(None, None)]:
        ctx.count('first_fit_checks')
        exp = model.first_fit(oms_ids, nb_wl * per_m)
        if exp != N[0] or M[0] != nb_wl * per_m:
            ctx.violation('not-first-fit', f'{where}: got N={N[0]}, M={M[0]}; the lowest feasible centre for M='
                          f'{nb_wl * per_m} is {exp}')
    # first fit, several slots: a slot whose centre the user left free sits at the lowest position that was free before
    # the request and is not taken by another slot of the same request (whatever the order in which the slots are placed)
    if len(N) == len(slots) and len(slots) > 1 and not any(v['mechanism'] is None for v in ctx.violations):
        for i, ((un, um), n, m) in enumerate(zip(slots, N, M)):
            if un is not None:
                continue
            others = [r for j, r in enumerate(ranges) if j != i]
            ctx.count('first_fit_checks_multi_slot')
            for c in model.index:
                if c + m >= n:
                    break
                a, b = c, c + 2 * m - 1
                if model.range_free(oms_ids, a, b) and not any(a <= d and e <= b for e, d in others):
                    ctx.violation('not-first-fit', f'{where}: slot {i} (M={m}) placed at N={n} although centre {c + m} was '
                                  f'free before the request and is not used by its other slots {others}')
                    break
    # post-state = pre-state + exactly these ranges on exactly the path OMS
    model.assign(oms_ids, ranges)
    for k in range(len(oms_list)):
        if after[k] != model.expected_bitmap(k):
            diff = [n for n, x, y in zip(model.index, after[k], model.expected_bitmap(k)) if x != y][:6]
            ctx.violation('occupancy-mismatch', f'{where}: map of OMS {k} differs from the union of the accepted '
                          f'assignments at slots {diff} ({"on" if k in oms_ids else "off"} the path)')
            return False
    return True


def judge_batch(ctx, model, oms_list, steps, err):
    """The routine was called ONCE with the whole batch (the way planning() calls it): whatever it shares between the
    requests of one call (tentative maps, caches) is in play.  The outcomes are replayed in order against the model;
    the model's own maps stand for the unobservable intermediate states and the real final maps must equal the
    model's."""
    ctx.count('batched_calls')
    if err is not None:
        ctx.violation('assignment-raised', f'batch of {len(steps)} requests: {type(err).__name__}: {err}')
        return
    for st in steps:
        before = [model.expected_bitmap(k) for k in range(len(oms_list))]
        rq = st['rq']
        if getattr(rq, 'blocking_reason', None) is None and rq.N is not None:
            try:
                rngs = [(n - m, n + m - 1) for n, m in zip(rq.N, rq.M)]
            except TypeError:
                rngs = []
            after = []
            for k in range(len(oms_list)):
                occ = set(model.occupied[k])
                if k in st['oms_ids']:
                    for a, b in rngs:
                        occ.update(range(a, b + 1))
                after.append([OCC if n in occ else v for n, v in zip(model.index, model.initial[k])])
        else:
            after = before
        judge_step(ctx, model, oms_list, st['oms_ids'], st['slots'], rq, st['nb_wl'], st['per_m'], before, after, None)
        ctx.count('requests_in_batched_calls')
        if any(v['mechanism'] is None for v in ctx.violations):
            return
    ctx.count('final_occupancy_checks')
    for k, o in enumerate(oms_list):
        if list(o.spectrum_bitmap.bitmap) != model.expected_bitmap(k):
            diff = [n for n, x, y in zip(model.index, o.spectrum_bitmap.bitmap, model.expected_bitmap(k)) if x != y][:6]
            ctx.violation('final-occupancy', f'OMS {k}: after one call with {len(steps)} requests the map differs from the '
                          f'union of the accepted assignments at slots {diff}')
            return


# ------------------------------------------------------------------------------------------------------------

class El(Fused):
    pass


def make_req(rid, slots, spacing, bandwidth, bit_rate=100e9):
    rq = PathRequest(request_id=str(rid), source='a', destination='z', trx_type='t', trx_mode='m', spacing=spacing,
                     path_bandwidth=bandwidth, bit_rate=bit_rate, baud_rate=32e9,
                     effective_freq_slot=[{'N': n, 'M': m} for n, m in slots])
    return rq


def run_synthetic(case, ctx):
    rng = ctx.rng
    n_pairs = rng.randint(1, 3)
    f_min = 193.1e12 - rng.randint(2, 12) * 25e9
    f_max = 193.1e12 + rng.randint(6, 40) * 25e9
    n_lo, n_hi = frequency_to_n(f_min), frequency_to_n(f_max)
    oms_list = []
    for k in range(2 * n_pairs):
        bm = [FREE] * (n_hi - n_lo + 1)
        for _ in range(rng.randint(0, 2)):
            a = rng.randrange(len(bm))
            for i in range(a, min(len(bm), a + rng.randint(1, 12))):
                bm[i] = UNU
        o = OMS(oms_id=k, el_id_list=[], el_list=[])
        o.update_spectrum(f_min, f_max, existing_spectrum=bm)
        oms_list.append(o)
    tight = rng.random() < 0.1
    if tight:
        # one free window only, the same on every OMS: a request that fixes a slot filling it and a second width for
        # which nothing is left must be blocked (the fixed width is neither dropped nor squeezed in)
        t_per_m = 4
        t_big = t_per_m * rng.randint(1, 3)
        w0 = n_lo + rng.randint(2, max(2, (n_hi - n_lo) - 2 * t_big - 2))
        for o in oms_list:
            bm = [UNU] * (n_hi - n_lo + 1)
            for i in range(w0 - n_lo, w0 - n_lo + 2 * t_big):
                bm[i] = FREE
            o.update_spectrum(f_min, f_max, existing_spectrum=bm)
    model = Model(oms_list)
    hist = []
    n_req = rng.randint(1, 40)
    any_acc = any_blk = special = False
    batched = rng.random() < 0.35
    steps = []
    for r in range(n_req):
        fwd = sorted(rng.sample(range(n_pairs), rng.randint(1, n_pairs)))
        bidir = rng.random() < 0.7
        path = []
        for k in fwd:
            e = El(uid=f'f{k}')
            e.oms_id = 2 * k
            path.append(e)
        rpath = []
        if bidir:
            for k in fwd:
                e = El(uid=f'r{k}')
                e.oms_id = 2 * k + 1
                rpath.append(e)
        spacing = G.pick(rng, [37.5e9, 50e9, 50e9, 75e9, 43.75e9, 56.25e9, 33e9, 68.75e9])  # some not multiples of 12.5 GHz
        per_m = math.ceil(spacing / 12.5e9)
        nb_wl = G.pick(rng, [1, 1, 2, 3, 4])
        kind = G.pick(rng, ['free', 'free', 'free', 'fixed-nm', 'fixed-m', 'fixed-n', 'multi', 'multi-free-tail',
                            'insufficient', 'multi-one-infeasible', 'multi-free-sized'])
        need = nb_wl * per_m
        cn = rng.randint(model.lo, model.hi)
        if rng.random() < 0.6:
            # aim at a currently free position so that fixed slots are often accepted
            ff = model.first_fit({2 * k for k in fwd} | ({2 * k + 1 for k in fwd} if bidir else set()), need)
            if ff is not None:
                cn = ff + G.pick(rng, [0, 0, 2 * need, 4 * need])
                cn = min(max(cn, model.lo), model.hi)
        if rng.random() < 0.06:
            # a user-fixed centre that lies outside the slot range of the maps altogether (a typo, another band): it cannot
            # be used as given, so the request is blocked
            cn = model.index[-1] + rng.randint(1, 80) if rng.random() < 0.5 else model.index[0] - rng.randint(1, 80)
            if kind in ('fixed-nm', 'fixed-n', 'multi', 'multi-free-tail', 'insufficient', 'multi-one-infeasible'):
                ctx.count('fixed_centres_outside_the_maps')
        if kind == 'free':
            slots = [(None, None)]
        elif kind == 'fixed-nm':
            slots = [(cn, need + G.pick(rng, [0, 0, per_m]))]
        elif kind == 'fixed-m':
            slots = [(None, need)]
        elif kind == 'fixed-n':
            slots = [(cn, None)]
        elif kind == 'multi':
            slots = [(cn, per_m)] + [(None, per_m) if rng.random() < 0.5 else
                                     (min(cn + 2 * per_m * (j + 1), model.index[-1]), per_m)
                                     for j in range(nb_wl - 1)]
        elif kind == 'multi-one-infeasible':
            # several fixed slots, the first one large enough for the whole demand, another one (smaller, so examined
            # later) placed on spectrum that is already taken when there is any: used as given, or the request blocked
            taken = sorted(set().union(*[model.occupied[2 * k] for k in fwd]))
            n2 = G.pick(rng, taken) if taken else min(cn + 3 * need, model.hi)
            slots = [(cn, need + per_m), (n2, per_m)]
            if rng.random() < 0.4:
                # the second slot fixes its width only, and so large that no window of that width exists on the path
                slots = [(cn, need + per_m), (None, max(per_m, (len(model.index) // 2 // per_m) * per_m))]
        elif kind == 'multi-free-sized':
            # several slots of different widths, all without centre: each goes to the lowest place it fits in
            a = G.pick(rng, [2, 3, 4])
            nb_wl = a + 1
            need = nb_wl * per_m
            slots = [(None, a * per_m), (None, per_m)]
            if rng.random() < 0.5:
                slots.reverse()
        elif kind == 'multi-free-tail':
            slots = [(cn, G.pick(rng, [per_m, need, need + per_m, 2 * need])), (None, None)]
        else:
            slots = [(cn, max(1, need - per_m))] if nb_wl > 1 else [(cn, max(1, per_m - 1))]
        if tight and r == 0:
            spacing, per_m, nb_wl, kind = 50e9, t_per_m, 1, 'tight-window'
            need = per_m
            slots = [(w0 + t_big, t_big), (None, G.pick(rng, [per_m, per_m, 2 * per_m]))]
        rq = make_req(r, slots, spacing, nb_wl * 100e9)
        oms_ids = set(build_path_oms_id_list(path + rpath))
        if batched:
            steps.append({'rq': rq, 'path': path, 'rpath': rpath, 'slots': slots, 'nb_wl': nb_wl, 'per_m': per_m,
                          'oms_ids': oms_ids, 'kind': kind})
            special = special or kind != 'free'
            ctx.cls(f'kind:{kind}', 'bidir' if bidir else 'unidir', f'oms:{len(oms_ids)}', 'batched')
            continue
        before = snapshot(oms_list)
        err = None
        try:
            pth_assign_spectrum([path], [rq], oms_list, [rpath])
        except (SpectrumError, ServiceError, ValueError, IndexError, TypeError) as e:
            err = e
        after = snapshot(oms_list)
        hist.append({'slots': slots, 'spacing': spacing, 'nb_wl': nb_wl, 'oms': sorted(oms_ids),
                     'N': getattr(rq, 'N', None), 'M': getattr(rq, 'M', None),
                     'blocked': getattr(rq, 'blocking_reason', None), 'error': str(err) if err else None})
        ok = judge_step(ctx, model, oms_list, oms_ids, slots, rq, nb_wl, per_m, before, after, err)
        if err is not None:
            # the real routine aborted mid-way: bring the model back in line with the real maps
            for k in range(len(oms_list)):
                for n, v0, v1 in zip(model.index, before[k], after[k]):
                    if v0 == FREE and v1 == OCC:
                        model.occupied[k].add(n)
        any_acc = any_acc or (err is None and getattr(rq, 'blocking_reason', None) is None)
        any_blk = any_blk or getattr(rq, 'blocking_reason', None) is not None
        special = special or kind != 'free'
        ctx.cls(f'kind:{kind}', 'bidir' if bidir else 'unidir', f'oms:{len(oms_ids)}')
        if any(v['mechanism'] is None for v in ctx.violations):
            ctx.dump.update({'f_min': f_min, 'f_max': f_max, 'initial_maps': [''.join(str(x) for x in b) for b in model.initial],
                             'history': hist})
            return
    if batched:
        err = None
        try:
            pth_assign_spectrum([st['path'] for st in steps], [st['rq'] for st in steps], oms_list,
                                [st['rpath'] for st in steps])
        except (SpectrumError, ServiceError, ValueError, IndexError, TypeError) as e:
            err = e
        judge_batch(ctx, model, oms_list, steps, err)
        hist = [{'slots': st['slots'], 'nb_wl': st['nb_wl'], 'oms': sorted(st['oms_ids']), 'N': getattr(st['rq'], 'N', None),
                 'M': getattr(st['rq'], 'M', None), 'blocked': getattr(st['rq'], 'blocking_reason', None)} for st in steps]
        any_acc = any(h['N'] is not None for h in hist)
        any_blk = any(h['blocked'] is not None for h in hist)
        if any(v['mechanism'] is None for v in ctx.violations):
            ctx.dump.update({'f_min': f_min, 'f_max': f_max, 'batched': True,
                             'initial_maps': [''.join(str(x) for x in b) for b in model.initial], 'history': hist})
            return
    else:
        # final occupancy = union of accepted assignments
        ctx.count('final_occupancy_checks')
        for k, o in enumerate(oms_list):
            if list(o.spectrum_bitmap.bitmap) != model.expected_bitmap(k):
                if not ctx.violations:
                    ctx.violation('final-occupancy', f'OMS {k}: final map differs from the union of the accepted assignments')
    if (any_acc and any_blk) or special:
        ctx.nontrivial(('synthetic', [''.join(str(x) for x in b) for b in model.initial], hist))
    if not ctx.samples:
        ctx.sample({'kind': 'synthetic', 'oms': len(oms_list), 'slots_per_map': len(model.index),
                    'history': hist[:6], 'requests': len(hist)})


def run_planning(case, ctx):
    """Real planning() flow; the assignment routine is stepped request by request from a wrapper."""
    rng = ctx.rng
    ej = G.eqpt_json()
    tj, _ = G.gen_topology(rng, n_sites=rng.randint(2, 4), max_spans=2, whole_km=True, max_km=100, user_amps=False)
    equipment = G.make_equipment(ej)
    network = G.make_network(tj, equipment)
    SimParams.set_params({})
    G.design(equipment, network)
    model_net = S.SiteModel(network)
    trx = sorted(model_net.roadm_of)
    reqs = []
    for i in range(rng.randint(3, 14)):
        a, z = rng.sample(trx, 2)
        spacing = G.pick(rng, [50e9, 50e9, 75e9, 37.5e9, 43.75e9, 56.25e9, 62.5e9])
        nb = G.pick(rng, [1, 2, 8, 20, 40, 60])
        per_m = math.ceil(spacing / 12.5e9)
        kind = G.pick(rng, ['free', 'free', 'free', 'fixed-nm', 'fixed-m', 'multi'])
        cn = rng.randrange(-260, 420)
        if kind == 'free':
            slots = [{'N': None, 'M': None}]
        elif kind == 'fixed-nm':
            slots = [{'N': cn, 'M': nb * per_m}]
        elif kind == 'fixed-m':
            slots = [{'N': None, 'M': nb * per_m}]
        else:
            slots = [{'N': cn, 'M': per_m * max(1, nb // 2)}, {'N': None, 'M': None}]
        reqs.append(S.request(i, a, z, trx_mode='mode 1', spacing=spacing, bidir=rng.random() < 0.5, slots=slots,
                              path_bandwidth=nb * 100e9))
        reqs[-1]['path-constraints']['te-bandwidth']['max-nb-of-channel'] = 10 + i   # no aggregation
    data = {'path-request': reqs}
    state = {}
    orig = worker_utils.pth_assign_spectrum

    whole = rng.random() < 0.5

    def stepped(pths, rqs, oms_list, rpths, policy='first_fit'):
        model = Model(oms_list)
        state['model'] = model
        if whole:
            # one call with the whole batch, exactly as planning() makes it; judged from the outcomes afterwards
            steps = []
            for pth, rq, rpth in zip(pths, rqs, rpths):
                if hasattr(rq, 'blocking_reason'):
                    continue
                steps.append({'rq': rq, 'slots': list(zip(rq.N, rq.M)) if getattr(rq, 'N', None) is not None else [(None, None)],
                              'oms_ids': set(build_path_oms_id_list(pth + rpth)),
                              'nb_wl': math.ceil(rq.path_bandwidth / rq.bit_rate), 'per_m': math.ceil(rq.spacing / 12.5e9)})
            err = None
            try:
                orig(pths, rqs, oms_list, rpths, policy=policy)
            except (SpectrumError, ServiceError) as e:
                err = e
            judge_batch(ctx, model, oms_list, steps, err)
            ctx.cls('planning-one-call')
            if err is not None:
                raise err
            return
        for pth, rq, rpth in zip(pths, rqs, rpths):
            slots = list(zip(rq.N, rq.M)) if getattr(rq, 'N', None) is not None else [(None, None)]
            if hasattr(rq, 'blocking_reason'):
                orig([pth], [rq], oms_list, [rpth], policy=policy)
                continue
            oms_ids = set(build_path_oms_id_list(pth + rpth))
            nb_wl = math.ceil(rq.path_bandwidth / rq.bit_rate)
            per_m = math.ceil(rq.spacing / 12.5e9)
            before = snapshot(oms_list)
            err = None
            try:
                orig([pth], [rq], oms_list, [rpth], policy=policy)
            except (SpectrumError, ServiceError) as e:
                err = e
            after = snapshot(oms_list)
            judge_step(ctx, model, oms_list, oms_ids, slots, rq, nb_wl, per_m, before, after, err)
            if err is not None:
                raise err
            ctx.cls('planning', f'oms:{min(len(oms_ids), 6)}')
        ctx.count('final_occupancy_checks')
        for k, o in enumerate(oms_list):
            if list(o.spectrum_bitmap.bitmap) != model.expected_bitmap(k) and not ctx.violations:
                ctx.violation('final-occupancy', f'OMS {k}: final map differs from the union of the accepted assignments')
    worker_utils.pth_assign_spectrum = stepped
    try:
        planning(network, equipment, deepcopy(data))
    except SpectrumError as e:
        if not ctx.violations:
            raise
    finally:
        worker_utils.pth_assign_spectrum = orig
    ctx.nontrivial(('planning', P.digest(tj), P.digest(data)))
    if any(v['mechanism'] is None for v in ctx.violations):
        ctx.dump.update({'topology': tj, 'services': data})
    if not ctx.samples:
        ctx.sample({'kind': 'planning', 'requests': len(reqs), 'first_request': reqs[0]})


def run_case(case, ctx):
    if case['kind'] == 'stock':
        return stock.run_stock_case(case, ctx, ID)
    if case['kind'] == 'synthetic':
        run_synthetic(case, ctx)
    else:
        run_planning(case, ctx)
