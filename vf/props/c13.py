"""C13 - a service is accepted exactly when its worst channel clears the mode's threshold.

Monitors on the real path-request flow: (i) receiver GSNR recomputed from the raw line figures, the transmitter
OSNR and every crossed add/drop OSNR counted once; (ii) penalties by independent interpolation; (iii) verdict
recomputed from the receiver arrays; (iv) differential oracle for automatic mode selection: every candidate mode is
evaluated through the fixed-mode flow on a fresh copy, thresholds are then placed adversarially around the
measured metrics and the automatic run must pick the feasible mode with the highest baud rate then bit rate and
report the figures of its fresh fixed-mode evaluation.
"""
import math
from copy import deepcopy

import numpy as np

from gnpy.core.elements import Roadm, Transceiver
from gnpy.core.parameters import SimParams
from gnpy.tools.worker_utils import planning

from vf.gen import common as G, services as S
from vf.props import _prop_common as P

ID = 'C13'
RULE = ('generated designed meshes (power / PSD / PSW equalisation, ROADM add-drop OSNR, OpenROADM-like PMD/PDL, optional '
        'low p_max so that dense combs saturate) x synthetic transceiver (1..8 modes over 2..4 baud rates, penalty '
        'tables for CD/PMD/PDL, equalisation offsets, tx OSNR) x requests (fixed mode and automatic mode, spacings, '
        'bidirectional or not). Thresholds are placed at +-0.02 .. +-3 dB around the metric measured by a fixed-mode '
        'probe on a fresh copy. Non-trivial: a request with a threshold within 0.5 dB of its metric, or an automatic '
        'request with >=2 candidate modes of which some are feasible and some not. Distinct: hash of (topology, '
        'library, request).')
ASSUMPTIONS = ['a rounded metric equal to threshold + margin is judged in dedicated runs only (fixed mode of one-directional '
               'requests; automatic selection of the first explored mode of one-directional requests): accepted, "at '
               'least"; in the adversarial-threshold cases it is not generated / not judged',
               'the fixed-mode evaluation on a fresh deep copy of the designed network is the reference for what a '
               'mode achieves on a route', 'figures compared to 1e-6 dB']
REQUIRED_COUNTERS = {'receiver_gsnr_checks': 60, 'penalty_checks': 60, 'fixed_verdict_checks': 60,
                     'auto_selection_checks': 20, 'thresholds_within_half_db': 30, 'penalty_out_of_table': 2,
                     'worst_channel_is_not_lowest_gsnr': 2, 'fixed_verdict_on_threshold_checks': 20, 'auto_selection_on_threshold_checks': 10}
CASE_TIMEOUT = {'quick': 300, 'thorough': 600}
TRX = 'vfTrx'
ALT = {}


def plan(tier, seed):
    n = 320 if tier == 'quick' else 3000
    return [{'idx': i, 'kind': ['plain', 'sat', 'plain', 'penalty'][i % 4]} for i in range(n)]


def lin(x):
    return 10 ** (np.asarray(x, dtype=float) / 10)


def db(x):
    return 10 * np.log10(x)


# ------------------------------------------------------------------------------------------------------------

def gen_modes(rng, kind):
    bauds = rng.sample([28e9, 32e9, 44e9, 60e9, 64e9], rng.randint(2, 3))
    modes = []
    n = rng.randint(2, 7)
    # one power offset per baud rate, or one per mode (each mode must then be judged on its own propagation)
    per_baud = rng.random() < 0.5
    off_of = {b: G.pick(rng, [0, 0, 1.0, -1.0, 2.0]) for b in bauds}
    for i in range(n):
        b = G.pick(rng, bauds)
        m = {'format': f'm{i}', 'baud_rate': b, 'OSNR': 10.0, 'bit_rate': G.pick(rng, [100e9, 200e9, 300e9, 400e9]) + i,
             'roll_off': 0.15, 'tx_osnr': G.pick(rng, [35, 38, 40, 45]),
             'min_spacing': next(s for s in (37.5e9, 50e9, 62.5e9, 75e9, 87.5e9) if s >= b * 1.1), 'cost': 1}
        if per_baud:
            if off_of[b]:
                m['equalization_offset_db'] = off_of[b]
        elif rng.random() < 0.5:
            m['equalization_offset_db'] = G.pick(rng, [0, 1.0, -1.0, 2.0])
        if kind == 'penalty' or rng.random() < 0.3:
            pen = []
            if rng.random() < 0.8:
                cdmax = G.pick(rng, [4e3, 12e3, 40e3, 80e3])
                pen += [{'chromatic_dispersion': cdmax * 0.25, 'penalty_value': 0},
                        {'chromatic_dispersion': cdmax, 'penalty_value': G.pick(rng, [0.5, 1.0, 2.0])}]
            if rng.random() < 0.6:
                pen += [{'pmd': G.pick(rng, [5, 10, 30]), 'penalty_value': G.pick(rng, [0, 0.5])}]
            if rng.random() < 0.6:
                pen += [{'pdl': 1.0, 'penalty_value': 0.5}, {'pdl': G.pick(rng, [2.0, 4.0, 6.0]), 'penalty_value': 1.5}]
            if pen:
                m['penalties'] = pen
        modes.append(m)
    return modes


def build(rng, kind):
    ej = G.eqpt_json()
    G.vary_span_si(rng, ej, allow_eol=False, power_mode=True)
    ej['SI'][0]['sys_margins'] = G.pick(rng, [0, 1.5, 2, 3])
    r = ej['Roadm'][0]
    r['add_drop_osnr'] = G.pick(rng, [38, 33, 30, 100])
    if rng.random() < 0.5:
        r['pmd'], r['pdl'] = G.pick(rng, [0, 3e-12]), G.pick(rng, [0, 0.5, 1.5])
    if kind == 'sat':
        for e in ej['Edfa']:
            if e['type_variety'] in ('std_medium_gain', 'std_low_gain', 'std_high_gain'):
                e['p_max'] = G.pick(rng, [16, 17, 18])
        for k in ('target_pch_out_db', 'target_psd_out_mWperGHz', 'target_out_mWperSlotWidth'):
            r.pop(k, None)
        r['target_psd_out_mWperGHz'] = G.pick(rng, [3.125e-4, 4e-4, 6e-4])
        ej['SI'][0]['use_si_channel_count_for_design'] = True
    modes = gen_modes(rng, kind)
    ej['Transceiver'].append({'type_variety': TRX, 'frequency': {'min': 191.35e12, 'max': 196.1e12}, 'mode': modes})
    tj, _ = G.gen_topology(rng, n_sites=rng.randint(2, 4), max_spans=3, whole_km=True, max_km=120,
                           user_amps=rng.random() < 0.5, per_degree=False,
                           dispersion_variants=kind == 'penalty' and rng.random() < 0.7)
    if kind == 'penalty' and rng.random() < 0.5:
        # negative-dispersion fibre: the accumulated CD can fall below the first point of a penalty table
        ej['Fiber'].append({'type_variety': 'NDF', 'dispersion': -6e-06, 'effective_area': 72e-12, 'pmd_coef': 1.265e-15})
        for e in tj['elements']:
            if e['type'] == 'Fiber' and rng.random() < 0.7:
                e['type_variety'] = 'NDF'
    equipment = G.make_equipment(ej)
    network = G.make_network(tj, equipment)
    SimParams.set_params({})
    G.design(equipment, network)
    return ej, tj, equipment, network


def run_planning(ej, network, reqs):
    """Real path-request flow on a fresh copy of the designed network and a freshly loaded library."""
    equipment = G.make_equipment(ej)
    net = deepcopy(network)
    data = {'path-request': deepcopy(reqs)}
    SimParams.set_params({})
    oms_list, propagated, rev_propagated, rqs, dsjn, result = planning(net, equipment, data)
    return equipment, net, rqs, propagated, rev_propagated, result


# ------------------------------------------------------------------------------------------------------------

def penalty_ref(table, x):
    """Independent linear interpolation of a penalty table given as the library list of points; inf outside."""
    pts = sorted(table)
    if all(p[0] > 0 for p in pts):
        pts = [(0.0, 0.0)] + pts
    if x < pts[0][0] or x > pts[-1][0]:
        return math.inf
    for (x0, y0), (x1, y1) in zip(pts[:-1], pts[1:]):
        if x0 <= x <= x1:
            return y0 if x1 == x0 else y0 + (y1 - y0) * (x - x0) / (x1 - x0)
    return pts[-1][1]


def mode_tables(mode):
    out = {}
    for p in mode.get('penalties', []) or []:
        for k in ('chromatic_dispersion', 'pmd', 'pdl'):
            if k in p:
                out.setdefault(k, []).append((float(p[k]), float(p['penalty_value'])))
    return out


def add_drop_osnrs(ej, tj, path):
    """OSNR contributions (dB, 0.1 nm) of the crossed ROADM add and drop paths, from the documents."""
    lib = {r.get('type_variety', 'default'): r for r in ej['Roadm']}
    orig = {e['uid']: e for e in tj['elements']}
    out = []
    for i, el in enumerate(path):
        if isinstance(el, Roadm):
            add = isinstance(path[i - 1], Transceiver)
            drop = isinstance(path[i + 1], Transceiver)
            if add or drop:
                r = lib[orig[el.uid].get('type_variety', 'default')]
                out.append(r['add_drop_osnr'] + 10 * math.log10(2))
    return out


def check_receiver(ctx, ej, tj, path, mode, where):
    """(i) GSNR from raw figures + noise contributions once, (ii) penalties, returns the metric."""
    rx = path[-1]
    raw = np.asarray(rx.raw_snr_01nm, dtype=float)
    contrib = [mode['tx_osnr']] + add_drop_osnrs(ej, tj, path)
    exp = -db(lin(-raw) + sum(10 ** (-c / 10) for c in contrib))
    ctx.count('receiver_gsnr_checks')
    dev = float(np.max(np.abs(exp - np.asarray(rx.snr_01nm, dtype=float))))
    ctx.maxstat('receiver_gsnr_dev_db', dev)
    if dev > 1e-9:
        ctx.violation('receiver-gsnr', f'{where}: receiver GSNR(0.1nm) {rx.snr_01nm[0]:.6f} dB; raw line value '
                      f'{raw[0]:.6f} with tx OSNR and {len(contrib) - 1} add/drop contributions counted once gives '
                      f'{exp[0]:.6f}', {'contributions_db': contrib})
    tables = mode_tables(mode)
    tot = np.zeros(len(raw))
    for k, tab in tables.items():
        vals = np.asarray(getattr(rx, k), dtype=float)
        ref = np.array([penalty_ref(tab, float(v)) for v in vals])
        ctx.count('penalty_checks')
        got = np.asarray(rx.penalties[k], dtype=float)
        if np.any(np.isinf(ref)):
            ctx.count('penalty_out_of_table')
        same = np.all((np.isinf(ref) & np.isinf(got)) | (np.abs(np.where(np.isinf(ref), 0, ref) -
                                                                 np.where(np.isinf(got), 0, got)) < 1e-9))
        if not same or np.any(np.isinf(ref) != np.isinf(got)):
            ctx.violation('penalty', f'{where}: {k} penalty {got[:3]} for impairment {vals[:3]}, table {tab} gives '
                          f'{ref[:3]}')
        tot = tot + ref
    if set(rx.penalties) != set(tables):
        ctx.violation('penalty', f'{where}: penalties evaluated for {sorted(rx.penalties)}, mode defines {sorted(tables)}')
    got_tot = np.asarray(rx.total_penalty, dtype=float) * np.ones(len(raw))
    if not np.all((np.isinf(tot) & np.isinf(got_tot)) | (np.abs(np.where(np.isinf(tot), 0, tot) -
                                                                np.where(np.isinf(got_tot), 0, got_tot)) < 1e-9)):
        ctx.violation('penalty', f'{where}: total penalty {got_tot[:3]} != sum of the tables {tot[:3]}')
    # metric of the channel a careless implementation would look at (the lowest GSNR) - used to aim thresholds
    alt = float((exp - tot)[int(np.argmin(exp))])
    ALT[where] = alt
    return float(np.min(exp - tot))


def run_case(case, ctx):
    rng = ctx.rng
    ej, tj, equipment, network = build(rng, case['kind'])
    trx_entry = next(t for t in ej['Transceiver'] if t['type_variety'] == TRX)
    modes = trx_entry['mode']
    margin = ej['SI'][0]['sys_margins']
    model = S.SiteModel(network)
    trx = sorted(model.roadm_of)
    pairs = [(a, z) for a in trx for z in trx if a != z]
    rng.shuffle(pairs)
    ctx.dump.update({'equipment_trx': trx_entry, 'equipment_si': ej['SI'], 'equipment_roadm': ej['Roadm'][:1],
                     'equipment_span': ej['Span'], 'topology': tj})
    for a, z in pairs[:2]:
        spacing = G.pick(rng, [50e9, 62.5e9, 75e9, 87.5e9])
        bidir = rng.random() < 0.4
        dense = case['kind'] == 'sat'
        nb = None if dense else G.pick(rng, [None, 40, 20])
        fit = [m for m in modes if m['min_spacing'] <= spacing]
        if not fit:
            continue
        if case['kind'] == 'penalty' and rng.random() < 0.6:
            # put the sloped part of the CD penalty tables across the CD values this route really accumulates, so
            # that the penalty differs from channel to channel
            req = S.request('cd', a, z, trx_type=TRX, trx_mode=fit[0]['format'], spacing=spacing, bidir=False, max_nb=nb)
            eqp, net, rqs, prop, rprop, res = run_planning(ej, network, [req])
            if prop[0]:
                cd = np.asarray(prop[0][-1].chromatic_dispersion, dtype=float)
                lo, hi = float(np.min(cd)), float(np.max(cd))
                if hi - lo > 50 and lo > 0:
                    for m in modes:
                        pen = [q for q in m.get('penalties', []) if 'chromatic_dispersion' not in q]
                        pen += [{'chromatic_dispersion': round(lo * 0.6, 1), 'penalty_value': 0},
                                {'chromatic_dispersion': round(hi + (hi - lo) * 0.3, 1),
                                 'penalty_value': G.pick(rng, [1.0, 2.0, 3.0])}]
                        m['penalties'] = pen
                    ctx.count('cd_tables_aimed_at_route')
        # ---- probe: every candidate mode through the fixed-mode flow on a fresh copy
        probes = {}
        for m in fit:
            req = S.request('p', a, z, trx_type=TRX, trx_mode=m['format'], spacing=spacing, bidir=bidir, max_nb=nb)
            eqp, net, rqs, prop, rprop, res = run_planning(ej, network, [req])
            if not prop[0]:
                continue
            metric_f = check_receiver(ctx, ej, tj, prop[0], m, f'probe {m["format"]} {a}->{z}')
            metric_r = check_receiver(ctx, ej, tj, rprop[0], m, f'probe {m["format"]} {z}->{a}') if bidir and rprop[0] \
                else None
            alts = [ALT.get(f'probe {m["format"]} {a}->{z}')] + ([ALT.get(f'probe {m["format"]} {z}->{a}')]
                                                                 if metric_r is not None else [])
            probes[m['format']] = {'f': metric_f, 'r': metric_r, 'alt': min(x for x in alts if x is not None),
                                   'snr01': float(np.mean(prop[0][-1].snr_01nm)),
                                   'min01': float(np.min(prop[0][-1].snr_01nm)),
                                   'route': [n.uid for n in prop[0]]}
        if ctx.violations or not probes:
            return
        # ---- adversarial thresholds
        ej2 = deepcopy(ej)
        trx2 = next(t for t in ej2['Transceiver'] if t['type_variety'] == TRX)
        thr = {}
        for m in trx2['mode']:
            if m['format'] not in probes:
                continue
            pr = probes[m['format']]
            worst = pr['f'] if pr['r'] is None else min(pr['f'], pr['r'])
            if math.isinf(worst):
                m['OSNR'] = 5.0
                thr[m['format']] = 5.0 + margin
                continue
            delta = G.pick(rng, [-0.5, -0.02, 0.02, 0.5, -3, 3, 0.02, -0.02, 0.3, -0.3])
            # threshold placed relative to the forward metric (automatic selection looks at the forward direction)
            base = round(pr['f'], 2)
            if not math.isinf(pr['alt']) and pr['alt'] - worst > 0.05 and pr['r'] is None:
                # the worst channel after penalties is not the lowest-GSNR channel: aim between the two
                ctx.count('worst_channel_is_not_lowest_gsnr')
                if rng.random() < 0.6:
                    delta = -round((pr['alt'] - worst) / 2, 3)
            m['OSNR'] = round(base - margin - delta, 6)
            thr[m['format']] = m['OSNR'] + margin
            if abs(delta) <= 0.5:
                ctx.count('thresholds_within_half_db')

        def feasible(fmt, direction):
            v = probes[fmt][direction]
            if v is None:
                return True
            if math.isinf(v):
                return False
            r = round(v, 2)
            if abs(r - thr[fmt]) < 1e-9:
                return None
            return r > thr[fmt]
        # ---- fixed-mode verdicts with the final library
        for m in trx2['mode']:
            fmt = m['format']
            if fmt not in probes:
                continue
            req = S.request('f', a, z, trx_type=TRX, trx_mode=fmt, spacing=spacing, bidir=bidir, max_nb=nb)
            eqp, net, rqs, prop, rprop, res = run_planning(ej2, network, [req])
            ff, fr = feasible(fmt, 'f'), feasible(fmt, 'r')
            if ff is None or fr is None:
                ctx.skip('metric-on-threshold')
                continue
            exp_ok = ff and fr
            blocked = getattr(rqs[0], 'blocking_reason', None)
            ctx.count('fixed_verdict_checks')
            ctx.cls('fixed:' + ('accepted' if exp_ok else 'rejected'))
            if exp_ok and blocked is not None:
                ctx.violation('fixed-mode-verdict', f'{fmt} {a}->{z}: worst channel metric {probes[fmt]} clears '
                              f'threshold+margin {thr[fmt]:.4f} but the request is blocked ({blocked})')
            elif not exp_ok and blocked != 'MODE_NOT_FEASIBLE':
                ctx.violation('fixed-mode-verdict', f'{fmt} {a}->{z}: metric {probes[fmt]} below threshold+margin '
                              f'{thr[fmt]:.4f} (or impairment outside the penalty table) but outcome is {blocked}')
            if prop[0]:
                check_receiver(ctx, ej2, tj, prop[0], m, f'fixed {fmt} {a}->{z}')
            if abs(round(probes[fmt]['f'], 2) - thr[fmt]) <= 0.5 + 1e-9:
                ctx.nontrivial((P.digest(tj), P.digest(trx2), a, z, fmt, spacing, bidir))
        if ctx.violations:
            return
        # ---- fixed mode, threshold + margin exactly equal to the rounded worst-channel metric: "at least" accepts
        if not bidir:
            for m in trx2['mode']:
                fmt = m['format']
                v = probes.get(fmt, {}).get('f')
                if v is None or math.isinf(v):
                    continue
                base = round(v, 2)
                if abs(v - base) > 0.004:              # not next to a rounding tie of the metric itself
                    continue
                osnr = base - margin
                for _ in range(8):
                    if osnr + margin == base:
                        break
                    osnr = float(np.nextafter(osnr, osnr + (base - (osnr + margin))))
                if osnr + margin != base:
                    continue
                ej3 = deepcopy(ej2)
                for m3 in next(t for t in ej3['Transceiver'] if t['type_variety'] == TRX)['mode']:
                    if m3['format'] == fmt:
                        m3['OSNR'] = osnr
                req = S.request('e', a, z, trx_type=TRX, trx_mode=fmt, spacing=spacing, bidir=False, max_nb=nb)
                eqp, net, rqs, prop, rprop, res = run_planning(ej3, network, [req])
                blocked = getattr(rqs[0], 'blocking_reason', None)
                if not prop[0] or blocked not in (None, 'MODE_NOT_FEASIBLE'):
                    break
                rx = prop[0][-1]
                if round(float(np.min(rx.snr_01nm - rx.total_penalty)), 2) != base:
                    break                               # (the metric of this run is not the probed one: not judged)
                ctx.count('fixed_verdict_on_threshold_checks')
                if blocked is not None:
                    ctx.violation('fixed-mode-verdict', f'{fmt} {a}->{z}: worst channel metric {base} equals '
                                  f'threshold+margin {osnr + margin!r} ("at least") but the request is blocked ({blocked})')
                break
        if ctx.violations:
            return
        # ---- automatic selection
        req = S.request('auto', a, z, trx_type=TRX, trx_mode=None, spacing=spacing, bidir=bidir, max_nb=nb)
        eqp, net, rqs, prop, rprop, res = run_planning(ej2, network, [req])
        rq = rqs[0]
        order = sorted([m for m in trx2['mode'] if m['format'] in probes],
                       key=lambda m: (m['baud_rate'], m.get('equalization_offset_db', 0), m['bit_rate']), reverse=True)
        # documented preference: highest baud rate, then highest bit rate
        order_doc = sorted([m for m in trx2['mode'] if m['format'] in probes],
                           key=lambda m: (m['baud_rate'], m['bit_rate']), reverse=True)
        feas = [(m['format'], feasible(m['format'], 'f')) for m in order_doc]
        if any(v is None for _, v in feas):
            ctx.skip('metric-on-threshold')
            continue
        ok_modes = [f for f, v in feas if v]
        blocked = getattr(rq, 'blocking_reason', None)
        ctx.count('auto_selection_checks')
        mixed_bauds = {m1['baud_rate'] for m1 in order for m2 in order if m1['baud_rate'] == m2['baud_rate'] and
                       (m1.get('equalization_offset_db') or 0) != (m2.get('equalization_offset_db') or 0)}
        baud_of = {m['format']: m['baud_rate'] for m in order}
        # witness predicate of the listed finding: the mode picked by the code, or the mode that should have been
        # picked, has a baud rate shared by modes with different power offsets
        same_baud_diff_offset = baud_of.get(rq.tsp_mode) in mixed_bauds or \
            any(baud_of[f] in mixed_bauds for f, v in [(m['format'], feasible(m['format'], 'f')) for m in order][:1] if v) or \
            any(baud_of[m['format']] in mixed_bauds and feasible(m['format'], 'f') for m in order)
        sat = case['kind'] == 'sat'
        if not ok_modes:
            ctx.cls('auto:none-feasible')
            if blocked != 'NO_FEASIBLE_MODE':
                ctx.violation('auto-mode-selection', f'auto {a}->{z}: no candidate mode clears its threshold '
                              f'(metrics {probes}, thresholds {thr}) but the outcome is {blocked}, mode {rq.tsp_mode}',
                              mechanism=auto_mech(same_baud_diff_offset, sat))
        else:
            best = ok_modes[0]
            ctx.cls('auto:selected')
            rev_ok = feasible(best, 'r')
            if rev_ok is None:
                ctx.skip('metric-on-threshold')
                continue
            exp_block = None if rev_ok else 'MODE_NOT_FEASIBLE'
            if rq.tsp_mode != best or (blocked not in (exp_block,)):
                ctx.violation('auto-mode-selection', f'auto {a}->{z} (spacing {spacing * 1e-9} GHz): selected '
                              f'{rq.tsp_mode} (blocking {blocked}); the feasible mode with the highest baud rate then '
                              f'bit rate is {best} (expected blocking {exp_block}); forward metrics '
                              f'{ {k: round(v["f"], 3) for k, v in probes.items()} }, thresholds {thr}',
                              {'order': [m['format'] for m in order_doc]},
                              mechanism=auto_mech(same_baud_diff_offset, sat))
            elif prop[0]:
                got = float(np.min(prop[0][-1].snr_01nm - prop[0][-1].total_penalty))
                ctx.maxstat('auto_vs_fresh_metric_dev_db', abs(got - probes[best]['f']))
                if abs(got - probes[best]['f']) > 1e-6:
                    ctx.violation('auto-mode-figures', f'auto {a}->{z}: selected {best} reports worst-channel metric '
                                  f'{got:.6f} dB, its fresh fixed-mode evaluation gives {probes[best]["f"]:.6f} dB',
                                  mechanism=auto_mech(same_baud_diff_offset, sat))
                sel_mode = next(m for m in trx2['mode'] if m['format'] == best)
                check_receiver(ctx, ej2, tj, prop[0], sel_mode, f'auto {best} {a}->{z}')
                if not bidir and not sat and not same_baud_diff_offset and best == order_doc[0]['format'] \
                        and blocked is None:
                    # ---- the same automatic run with the selected (first explored) mode's threshold + margin moved
                    # exactly onto its rounded metric: "at least" still selects it
                    arr = prop[0][-1].snr_01nm - prop[0][-1].total_penalty
                    base = float(round(min(arr), 2))            # the very expression of the code under test
                    osnr = base - margin
                    for _ in range(8):
                        if osnr + margin == base:
                            break
                        osnr = float(np.nextafter(osnr, osnr + (base - (osnr + margin))))
                    if osnr + margin == base and abs(got - base) <= 0.004:
                        ej3 = deepcopy(ej2)
                        for m3 in next(t for t in ej3['Transceiver'] if t['type_variety'] == TRX)['mode']:
                            if m3['format'] == best:
                                m3['OSNR'] = osnr
                        req3 = S.request('autoe', a, z, trx_type=TRX, trx_mode=None, spacing=spacing, bidir=False, max_nb=nb)
                        _, _, rqs3, prop3, _, _ = run_planning(ej3, network, [req3])
                        ctx.count('auto_selection_on_threshold_checks')
                        b3 = getattr(rqs3[0], 'blocking_reason', None)
                        if rqs3[0].tsp_mode != best or b3 is not None:
                            ctx.violation('auto-mode-selection', f'auto {a}->{z}: {best} (first explored, metric {base}) '
                                          f'is selected with threshold+margin {thr[best]:.4f}; with threshold+margin moved '
                                          f'exactly onto the metric ({osnr + margin!r}, "at least") the outcome is mode '
                                          f'{rqs3[0].tsp_mode}, blocking {b3}',
                                          mechanism='auto-mode-strict-at-threshold')
        if len(feas) >= 2 and any(v for _, v in feas) and not all(v for _, v in feas):
            ctx.nontrivial((P.digest(tj), P.digest(trx2), a, z, 'auto', spacing, bidir))
        if not ctx.samples:
            ctx.sample({'route': probes[list(probes)[0]]['route'][:20], 'spacing': spacing, 'bidir': bidir,
                        'modes': [{'format': m['format'], 'baud': m['baud_rate'], 'bit_rate': m['bit_rate'],
                                   'threshold_plus_margin': thr.get(m['format']),
                                   'metric_fwd': probes.get(m['format'], {}).get('f')} for m in trx2['mode']],
                        'auto_selected': rq.tsp_mode, 'auto_blocking': blocked})
        if any(v['mechanism'] is None for v in ctx.violations):
            return
    if not ctx.violations:
        ctx.dump.clear()


def auto_mech(same_baud_diff_offset, sat):
    if same_baud_diff_offset:
        return 'auto-mode-same-baud-different-offset'
    return None
