"""C17 - designing is repeatable: export, reload and redesign changes nothing.

Monitor: idempotence checker over recorded exports.  Each generated input is designed twice from scratch (exports
must be identical), then exported, reloaded and redesigned for 1..3 rounds (exports equal to the export rounding,
connections and element lists exact, propagated GSNR equal); the process-wide simulation parameters are recorded
before and after every design (must be exactly equal), with random Raman / NLI settings in force.
"""
import json
from copy import deepcopy

import numpy as np

from gnpy.core.elements import Fiber, Edfa, Fused
from gnpy.core.parameters import SimParams
from gnpy.tools.json_io import network_to_json
from gnpy.tools.convert_legacy_yang import yang_to_legacy

from vf import workload as W
from vf.gen import common as G
from vf.props import _prop_common as P

ID = 'C17'
RULE = ('generated meshes as for C08 (user amplifiers with full / partial / no settings, user VOAs, fused junctions, '
        'long fibres that get split, Raman spans, per-frequency loss) x generated Span/SI configurations (power and '
        'gain mode, EOL zero and non-zero, padding, connector defaults, PSD/PSW policies, per-degree targets) x random '
        'simulation parameters in force (Raman flag/method/order/resolutions, NLI method). Each (input, round) is one '
        'observation. Non-trivial: a design that inserted amplifiers or split fibres and was taken through >=2 rounds. '
        'Distinct: hash of (configuration, topology).'
        ' Also point-to-point lines, transceivers attached through a line and amplifier types with automatic output VOA.')
ASSUMPTIONS = ['numbers compared to the rounding of the export (1e-6), structure (elements, types, models, connections) '
               'exactly; propagated GSNR to 1e-4 dB', 'designs that raise are outside the quantifier']
REQUIRED_COUNTERS = {'fresh_design_pairs': 40, 'reload_rounds': 80, 'sim_params_checks': 100, 'propagation_comparisons': 30,
                     'raman_estimations_run': 3}
CASE_TIMEOUT = {'quick': 300, 'thorough': 600}


def plan(tier, seed):
    n = 182 if tier == 'quick' else 1625
    kinds = ['mesh', 'mesh', 'eol', 'long', 'raman', 'mesh', 'eol', 'gain', 'p2p', 'mesh', 'raman', 'long', 'multiband']
    cases = [{'idx': i, 'kind': kinds[i % len(kinds)]} for i in range(n)]
    # dedicated cases that reproduce a listed finding (gain mode, automatic type, saturating operator gain, input VOA)
    return cases + [{'idx': n, 'kind': 'kf-invoa-gain'}, {'idx': n + 1, 'kind': 'kf-invoa-gain'},
                    {'idx': n + 2, 'kind': 'kf-fibre-values'}, {'idx': n + 3, 'kind': 'kf-fibre-values'},
                    {'idx': n + 4, 'kind': 'kf-multiband-srs'}]


def sim_json():
    """Attribute-level snapshot of the process-wide simulation parameters (not the objects' own to_json(), which is
    what the design itself uses to save and restore them: a field missing there would be invisible)."""
    d = SimParams._shared_dict
    return {k: (json.loads(json.dumps(vars(v), default=str)) if hasattr(v, '__dict__') else v) for k, v in d.items()}


def rand_sim(rng, raman_net):
    s = {'raman_params': {'flag': rng.random() < (0.8 if raman_net else 0.3),
                          'method': G.pick(rng, ['perturbative', 'numerical']), 'order': G.pick(rng, [1, 2, 3]),
                          'result_spatial_resolution': G.pick(rng, [10e3, 5e3, 20e3]),
                          'solver_spatial_resolution': G.pick(rng, [100, 50, 200, 10e3])},
         'nli_params': {'method': G.pick(rng, ['gn_model_analytic', 'ggn_spectrally_separated', 'ggn_approx']),
                        'dispersion_tolerance': G.pick(rng, [1, 4]), 'phase_shift_tolerance': 0.1,
                        'computed_number_of_channels': G.pick(rng, [None, 3, 6])}}
    if not raman_net and s['raman_params']['flag']:
        # SRS in every design-time estimation: keep the solver step coarse so that designs stay fast
        s['raman_params']['solver_spatial_resolution'] = 10e3
        s['raman_params']['method'] = 'perturbative'
    return s


def design_once(ej, tj, sim, ctx, where, exported=False):
    equipment = G.make_equipment(ej)
    if exported:
        # a saved design is read back the way load_network() does it
        tj = yang_to_legacy(deepcopy(tj))
    network = G.make_network(tj, equipment)
    SimParams.set_params(deepcopy(sim))
    before = sim_json()
    G.design(equipment, network)
    after = sim_json()
    ctx.count('sim_params_checks')
    if before != after:
        diff = {k: (before[k], after[k]) for k in before if before[k] != after[k]}
        ctx.violation('sim-params-changed', f'{where}: auto-design changed the process-wide simulation parameters: {diff}')
    return equipment, network


def compare_exports(a, b, tol=1.5e-6):
    """Returns a description of the first difference, or None."""
    ea = {e['uid']: e for e in a['elements']}
    eb = {e['uid']: e for e in b['elements']}
    if list(ea) != list(eb):
        if set(ea) != set(eb):
            return {'kind': 'elements', 'only_first': sorted(set(ea) - set(eb))[:4], 'only_second': sorted(set(eb) - set(ea))[:4]}
    ca = sorted((c['from_node'], c['to_node']) for c in a['connections'])
    cb = sorted((c['from_node'], c['to_node']) for c in b['connections'])
    if ca != cb:
        return {'kind': 'connections', 'only_first': [c for c in ca if c not in cb][:4],
                'only_second': [c for c in cb if c not in ca][:4]}

    def walk(x, y, path):
        if isinstance(x, dict) and isinstance(y, dict):
            for k in sorted(set(x) | set(y)):
                if k not in x or k not in y:
                    return {'kind': 'key', 'path': path + [k], 'first': x.get(k, '<absent>'), 'second': y.get(k, '<absent>')}
                r = walk(x[k], y[k], path + [k])
                if r:
                    return r
            return None
        if isinstance(x, list) and isinstance(y, list):
            if len(x) != len(y):
                return {'kind': 'length', 'path': path, 'first': len(x), 'second': len(y)}
            for i, (p, q) in enumerate(zip(x, y)):
                r = walk(p, q, path + [i])
                if r:
                    return r
            return None
        if isinstance(x, bool) or isinstance(y, bool) or x is None or y is None or isinstance(x, str) or isinstance(y, str):
            return None if x == y else {'kind': 'value', 'path': path, 'first': x, 'second': y}
        if isinstance(x, (int, float)) and isinstance(y, (int, float)):
            return None if abs(x - y) <= tol * max(1.0, abs(x), abs(y)) else \
                {'kind': 'number', 'path': path, 'first': x, 'second': y}
        return None if x == y else {'kind': 'value', 'path': path, 'first': x, 'second': y}
    for uid in ea:
        r = walk(ea[uid], eb[uid], [uid])
        if r:
            return r
    return None


def build_inputs(rng, kind):
    ej = G.eqpt_json()
    G.vary_span_si(rng, ej, allow_eol=(kind == 'eol'), power_mode=False if kind == 'gain' else None)
    if kind == 'eol':
        ej['Span'][0]['EOL'] = G.pick(rng, [0.5, 1.0, 1.5])
    if rng.random() < (0.6 if kind == 'raman' else 0.3):
        # amplifier types whose output VOA is chosen by the design (no stock library entry has it): the saved design
        # then carries a VOA and an offset that the redesign must reproduce
        for e in ej['Edfa']:
            if e['type_variety'] in ('std_medium_gain', 'std_low_gain', 'std_high_gain') and \
                    rng.random() < (0.9 if kind == 'raman' else 0.7):
                e['out_voa_auto'] = True
    raman_net = kind == 'raman'
    if kind == 'kf-multiband-srs':
        # shipped C+L example designed with the Raman flag on (the design then estimates the power tilt between bands)
        ej = G.eqpt_json('eqpt_config_multiband.json')
        tj = G.example_json('multiband_example_network.json')
        sim = {'raman_params': {'flag': True, 'result_spatial_resolution': 10e3, 'solver_spatial_resolution': 10e3},
               'nli_params': {'method': 'gn_model_analytic', 'computed_number_of_channels': 3}}
        return ej, tj, sim, False
    if kind == 'multiband':
        # generated C+L network: multiband amplifiers with a stated type whose per-band amplifiers carry operator
        # settings of their own (offset, output and input VOA): the saved design has to carry all of them
        ej = G.eqpt_json('eqpt_config_multiband.json')
        ej['Span'][0]['EOL'] = 0

        def rp(r, s):
            return {'design_bands': deepcopy(P.MB_BANDS)}
        tj, _ = G.gen_topology(rng, max_sites=3, max_spans=2, user_amps=False, fused=False, roadm_params=rp, max_km=110)
        members = {e['type_variety']: e['amplifiers'] for e in ej['Edfa'] if e.get('type_def') == 'multi_band'}
        P.multibandify(tj, rng, members=members)
        for e in tj['elements']:
            if e['type'] == 'Multiband_amplifier' and e['amplifiers'] and rng.random() < 0.7:
                for a in e['amplifiers']:
                    a['operational'].update(delta_p=G.pick(rng, [None, 0, 1.0, -1.0]), out_voa=G.pick(rng, [None, 0, 1.0]),
                                            in_voa=G.pick(rng, [None, 0, 1.0, 2.5]))
        return ej, tj, rand_sim(rng, False), False
    if kind == 'kf-invoa-gain':
        ej = G.eqpt_json()
        ej['Span'][0]['power_mode'] = False
        tj, _ = G.gen_topology(rng, n_sites=2, max_spans=1, user_amps=False, fused=False, max_km=130, min_km=120) \
            if False else G.gen_topology(rng, n_sites=2, max_spans=1, user_amps=False, fused=False)
        for e in tj['elements']:
            if e['type'] == 'Fiber':
                e['params']['length'] = G.rnd(rng, 120, 135, 3)
        # a user-placed amplifier without type after the first fibre of each direction
        for c in list(tj['connections']):
            if c['from_node'].startswith('fiber') and c['to_node'].startswith('roadm'):
                uid = f'amp after {c["from_node"]}'
                tj['elements'].append({'uid': uid, 'type': 'Edfa', 'type_variety': '', 'metadata': G._loc(0, 0),
                                       'operational': {'gain_target': 33, 'delta_p': None, 'tilt_target': 0, 'out_voa': 0,
                                                       'in_voa': G.pick(rng, [1.0, 2.0])}})
                tj['connections'].remove(c)
                tj['connections'] += [{'from_node': c['from_node'], 'to_node': uid}, {'from_node': uid, 'to_node': c['to_node']}]
        return ej, tj, rand_sim(rng, False), False
    if raman_net:
        tj = P.raman_topology(rng)
    elif kind == 'p2p':
        tj = G.gen_p2p(rng, both=True, lumped=rng.random() < 0.2, long_fibers=rng.random() < 0.3)
    else:
        tj, _ = G.gen_topology(rng, max_sites=4, max_spans=3, long_fibers=(kind == 'long'), per_degree=rng.random() < 0.4,
                               per_freq_loss=rng.random() < 0.3, lumped=rng.random() < 0.2, max_km=140,
                               chassis=rng.random() < 0.2)
    if kind == 'kf-fibre-values':
        # element-level values of the fibre parameters that the topology model declares besides length / loss / PMD
        for e in tj['elements']:
            if e['type'] == 'Fiber':
                e['params']['dispersion'] = G.pick(rng, [4e-6, 2.1e-5, 8e-6])
                e['params'][G.pick(rng, ['gamma', 'effective_area'])] = None
                if 'gamma' in e['params']:
                    e['params']['gamma'] = G.pick(rng, [0.002, 0.0009])
                else:
                    e['params']['effective_area'] = G.pick(rng, [55e-12, 125e-12])
    if kind in ('long', 'p2p', 'mesh'):
        # fibres that get split and carry element-level values (PMD coefficient): every sub-span keeps them, in the
        # designed network and in its saved form
        for e in tj['elements']:
            if e['type'] == 'Fiber' and e['params']['length'] > 100 and rng.random() < 0.5:
                e['params']['pmd_coef'] = G.pick(rng, [3e-15, 2.5e-15, 6e-15])
    return ej, tj, rand_sim(rng, raman_net), raman_net


def gsnr_of(equipment, network, src, dst, raman_net=False):
    # Raman fibres need the Raman computation switched on to be crossed at all
    SimParams.set_params({'raman_params': {'flag': True, 'result_spatial_resolution': 10e3,
                                           'solver_spatial_resolution': 100}} if raman_net else {})
    req = W.make_request(equipment, src, dst)
    path = W.route(network, req)
    p, si, _, _ = W.propagate_copy(path, req, equipment)
    FIG[0] = {'osnr_ase_01nm': np.asarray(p[-1].osnr_ase_01nm, dtype=float), 'cd': np.asarray(si.chromatic_dispersion, dtype=float),
              'pmd': np.asarray(si.pmd, dtype=float), 'pdl': np.asarray(si.pdl, dtype=float),
              'latency': np.asarray(si.latency, dtype=float), 'pch_dbm': 10 * np.log10(np.asarray(si.pch, dtype=float) * 1e3)}
    return np.asarray(p[-1].snr_01nm, dtype=float), [n.uid for n in path]


FIG = [None]      # the other figures the last propagation ended with (OSNR, CD, PMD, PDL, latency, power)


FIBRE_OVERRIDES = ('dispersion', 'dispersion_slope', 'dispersion_per_frequency', 'gamma', 'effective_area',
                   'ref_frequency', 'ref_wavelength', 'raman_coefficient')


def figures_differ(first, second, ctx):
    """GSNR to 1e-4 dB, route exact, everything else the propagation accumulates as well (dB figures to 1e-4 dB, the
    others to 1e-6 relative: the export rounds lengths to the micrometre).  Returns a description or None."""
    (g1, route1, fig1), (g2, route2, fig2) = first, second
    if route1 != route2 or g1.shape != g2.shape or np.max(np.abs(g1 - g2)) > 1e-4:
        return f'GSNR {g1[:3]} vs {g2[:3]}'
    for k, v in fig2.items():
        u = fig1[k]
        tol = 1e-4 if k in ('osnr_ase_01nm', 'pch_dbm') else 1e-6 * max(1e-30, float(np.max(np.abs(u))))
        ctx.count('other_figures_compared')
        if u.shape != v.shape or np.max(np.abs(u - v)) > tol:
            return f'{k} {u[:3]} vs {v[:3]}'
    return None


def has_fibre_overrides(tj):
    return any(k in e.get('params', {}) for e in tj['elements'] if e['type'] in ('Fiber', 'RamanFiber')
               for k in FIBRE_OVERRIDES)


def reproduces_without_fibre_overrides(ej, tj, sim, a, z, raman_net, ctx):
    t2 = deepcopy(tj)
    for e in t2['elements']:
        if e['type'] in ('Fiber', 'RamanFiber'):
            for k in FIBRE_OVERRIDES:
                e['params'].pop(k, None)
    try:
        eq1, net1 = design_once(ej, t2, sim, ctx, 'classifier')
        g1, r1 = gsnr_of(eq1, net1, a, z, raman_net)
        f1 = FIG[0]
        x = json.loads(json.dumps(network_to_json(net1)))
        eq2, net2 = design_once(ej, x, sim, ctx, 'classifier', exported=True)
        g2, r2 = gsnr_of(eq2, net2, a, z, raman_net)
        return figures_differ((g1, r1, f1), (g2, r2, FIG[0]), ctx) is None
    except Exception:  # noqa
        return False
    finally:
        SimParams.set_params({})


def design_bands_of(network):
    from gnpy.core.elements import Roadm, Transceiver
    return {n.uid: json.loads(json.dumps(n.per_degree_design_bands, sort_keys=True, default=str))
            for n in network.nodes() if isinstance(n, (Roadm, Transceiver))}


def is_invoa_drift(ej, tj, d):
    """Witness predicate of a listed finding: gain mode, amplifier whose type was selected automatically, operator gain
    and input VOA; the redesigned gain is lower by at most the input VOA (first reload only)."""
    if ej['Span'][0]['power_mode'] or d.get('path', [None])[1:] != ['operational', 'gain_target']:
        return False
    o = next((e for e in tj['elements'] if e['uid'] == d['path'][0]), {})
    iv = (o.get('operational') or {}).get('in_voa') or 0
    return o.get('type') == 'Edfa' and not o.get('type_variety') and iv > 0 \
        and (o.get('operational') or {}).get('gain_target') is not None and 0 < d['first'] - d['second'] <= iv + 2.5e-6   # (both figures are rounded to 6 decimals by the export)


def classify_exception(e, tbs, ctx):
    if type(e).__name__ == 'TypeError' and 'estimate_raman_gain' in tbs and 'dbm2watt' in tbs and 'target_power' in tbs:
        return 'raman-span-upstream-amp-without-operator-power'
    return None


def run_case(case, ctx):
    rng = ctx.rng
    ej, tj, sim, raman_net = build_inputs(rng, case['kind'])
    eol = ej['Span'][0].get('EOL', 0)
    ctx.dump.update({'equipment_span': ej['Span'], 'equipment_si': ej['SI'], 'equipment_roadm': ej['Roadm'][:1],
                     'topology': tj, 'sim': sim})
    try:
        eq1, net1 = design_once(ej, tj, sim, ctx, 'first design')
        eq2, net2 = design_once(ej, tj, sim, ctx, 'second design of the same input')
    finally:
        SimParams.set_params({})
    if raman_net and sim['raman_params']['flag'] is not None:
        ctx.count('raman_estimations_run')
    x1 = json.loads(json.dumps(network_to_json(net1)))
    x2 = json.loads(json.dumps(network_to_json(net2)))
    ctx.count('fresh_design_pairs')
    if x1 != x2:
        ctx.violation('design-not-deterministic', f'two designs of the same input differ: {compare_exports(x1, x2, 0)}')
        return
    inserted = len(x1['elements']) - len(tj['elements'])
    rounds = rng.randint(1, 3)
    prev, prev_eq, prev_net = x1, eq1, net1
    trx = W.trx_uids(net1)
    a, z = rng.sample(trx, 2)
    try:
        g_prev, route_prev = gsnr_of(eq1, net1, a, z, raman_net)
        fig_prev = FIG[0]
    except W.NoChannelInBand:
        g_prev = None
    for r in range(rounds):
        try:
            eq_n, net_n = design_once(ej, deepcopy(prev), sim, ctx, f'redesign round {r + 1}', exported=True)
        finally:
            SimParams.set_params({})
        xn = json.loads(json.dumps(network_to_json(net_n)))
        ctx.count('reload_rounds')
        d = compare_exports(prev, xn)
        if d:
            mech = None
            if eol:
                # witness predicate of the listed finding: the drift disappears when the saved design is redesigned
                # with EOL = 0 (the saved connector losses already contain the margin)
                ej0 = deepcopy(ej)
                ej0['Span'][0]['EOL'] = 0
                try:
                    _, net0 = design_once(ej0, deepcopy(prev), sim, ctx, 'classifier', exported=True)
                    x0 = json.loads(json.dumps(network_to_json(net0)))
                    d0 = compare_exports(prev, x0)
                    if d0 is None or (r == 0 and is_invoa_drift(ej, tj, d0)):
                        # (what remains without EOL is nothing, or the other listed finding)
                        mech = 'eol-added-again-on-redesign'
                finally:
                    SimParams.set_params({})
            if mech is None and r == 0 and is_invoa_drift(ej, tj, d):
                mech = 'gain-mode-input-voa-first-reload-lowers-gain'
            if mech is None and r == 0 and design_bands_of(prev_net) != design_bands_of(net_n):
                # witness predicate of the listed finding: the design bands the two designs worked with differ (they
                # are derived from the amplifiers whose type is known, and the saved design knows them all)
                mech = 'design-bands-derived-again-from-selected-amplifiers'
            ctx.violation('redesign-drift', f'round {r + 1}: export -> reload -> redesign changed the network: {d}',
                          mechanism=mech)
            if mech is None:
                return
            break
        if g_prev is not None:
            g_n, route_n = gsnr_of(eq_n, net_n, a, z, raman_net)
            SimParams.set_params({})
            ctx.count('propagation_comparisons')
            ctx.maxstat('gsnr_drift_db', float(np.max(np.abs(g_n - g_prev))) if g_n.shape == g_prev.shape else 99)
            diff = figures_differ((g_prev, route_prev, fig_prev), (g_n, route_n, FIG[0]), ctx)
            if diff:
                mech = None
                if r == 0 and has_fibre_overrides(tj) and reproduces_without_fibre_overrides(ej, tj, sim, a, z, raman_net, ctx):
                    # witness predicate of the listed finding: the same comparison on the same input without the
                    # element-level fibre values (dispersion, gamma, effective area ...) shows no difference
                    mech = 'export-drops-element-level-fibre-values'
                ctx.violation('redesign-changes-results', f'round {r + 1}: the saved design does not reproduce the '
                              f'propagation results ({a} -> {z}): {diff}', mechanism=mech)
                if mech is None:
                    return
                break
        prev = xn
    ctx.cls(f'kind:{case["kind"]}', 'mode:power' if ej['Span'][0]['power_mode'] else 'mode:gain', f'eol:{eol}',
            f'raman_flag:{sim["raman_params"]["flag"]}', f'nli:{sim["nli_params"]["method"]}')
    if inserted > 0 and rounds >= 2:
        ctx.nontrivial((ej['Span'], ej['SI'], ej['Roadm'][0], P.digest(tj)))
    if not ctx.samples:
        ctx.sample({'kind': case['kind'], 'span_config': ej['Span'][0], 'sim_params_in_force': sim,
                    'elements_in': len(tj['elements']), 'elements_designed': len(x1['elements']), 'rounds': rounds})
    if not any(v['mechanism'] is None for v in ctx.violations):
        ctx.dump.clear()
