"""C19 - the reported response states exactly what was computed for each request.

Monitor: for generated batches run through the real planning() flow, the response document (results_to_json) and
its CSV export are compared with an independent response builder that reads the propagated path objects, the
receivers of both directions and the request objects; aggregation is recomputed from the input document.
"""
import csv
import io
import math
from copy import deepcopy

import numpy as np

from gnpy.core.elements import Transceiver, Roadm
from gnpy.core.parameters import SimParams
from gnpy.tools.json_io import results_to_json
from gnpy.tools.worker_utils import planning
from gnpy.topology.request import jsontocsv
import gnpy.topology.request as RQ

from vf.gen import common as G, services as S
from vf.props import _prop_common as P

ID = 'C19'
RULE = ('generated asymmetric meshes x batches of 2..9 requests covering served requests, every blocking reason '
        '(unsatisfiable STRICT route, no baud rate for the spacing, no feasible mode, fixed mode not feasible, no '
        'spectrum, not enough reserved spectrum), bidirectional requests, identical requests that get aggregated and '
        'multi-slot requests. Each response entry and each CSV row is one observation. Non-trivial: a batch with at '
        'least one served and one blocked request, or a bidirectional / aggregated / multi-slot one. Distinct: hash of '
        '(topology, batch).')
ASSUMPTIONS = ['the order of the ids inside a joined (aggregated) id is not judged', 'metrics compared exactly after the '
               'same rounding to two decimals']
REQUIRED_COUNTERS = {'responses_checked': 150, 'served': 50, 'blocked': 30, 'bidirectional': 15, 'aggregated': 5,
                     'csv_rows_checked': 150, 'blocking_reasons_seen': 4,
                     'csv_pass_threshold_checks': 5, 'csv_pass_boundary_checks': 10, 'reported_vs_event_checks': 100}
CASE_TIMEOUT = {'quick': 300, 'thorough': 600}
NOPATH = ('NO_PATH', 'NO_PATH_WITH_CONSTRAINT', 'NO_FEASIBLE_BAUDRATE_WITH_SPACING', 'NO_COMPUTED_SNR')


def plan(tier, seed):
    n = 480 if tier == 'quick' else 8000
    return [{'idx': i} for i in range(n)]


class R2(float):
    """A receiver value that is reported "rounded to two decimals": equal to any number with at most two decimals that
    lies within half a unit of the last place of it.  (A value sitting on a rounding tie - 1.815 - is reported as 1.81
    or 1.82 depending on the rounding routine; the statement does not choose between them.)"""

    def __eq__(self, other):
        if isinstance(other, R2):
            return float(self) == float(other)
        if isinstance(other, (int, float)) and not isinstance(other, bool):
            o = float(other)
            return abs(round(o * 100) - o * 100) < 1e-6 and abs(float(self) - o) <= 0.005 + 1e-9
        return False

    def __ne__(self, other):
        return not self.__eq__(other)

    __hash__ = float.__hash__

    def __repr__(self):
        return f'~{float(self):.4f}'


def r2(x):
    return R2(float(x))


def build(rng):
    ej = G.eqpt_json()
    G.vary_span_si(rng, ej, allow_eol=False, power_mode=True)
    voy = next(t for t in ej['Transceiver'] if t['type_variety'] == 'Voyager')
    voy['mode'].append({'format': 'impossible', 'baud_rate': 32e9, 'OSNR': 45, 'bit_rate': 100e9, 'roll_off': 0.15,
                        'tx_osnr': 40, 'min_spacing': 37.5e9, 'cost': 1})
    ej['Transceiver'].append({'type_variety': 'hardTrx', 'frequency': {'min': 191.35e12, 'max': 196.1e12},
                              'mode': [{'format': 'h1', 'baud_rate': 32e9, 'OSNR': 44, 'bit_rate': 100e9, 'roll_off': 0.15,
                                        'tx_osnr': 40, 'min_spacing': 37.5e9, 'cost': 1},
                                       {'format': 'h2', 'baud_rate': 64e9, 'OSNR': 46, 'bit_rate': 200e9, 'roll_off': 0.15,
                                        'tx_osnr': 40, 'min_spacing': 75e9, 'cost': 1}]})
    per_channel_penalties = rng.random() < 0.4
    if per_channel_penalties:
        # fibres whose dispersion differs per channel (slope / per-frequency tables) and steep CD penalty tables: the
        # penalty then differs from channel to channel and the channel with the worst margin is often not the one with
        # the lowest GSNR - the response must still report the lowest GSNR as such
        for t in ej['Transceiver']:
            for m in t['mode']:
                if rng.random() < 0.8:
                    m['penalties'] = [{'chromatic_dispersion': 0, 'penalty_value': 0},
                                      {'chromatic_dispersion': 6e4, 'penalty_value': G.pick(rng, [30, 60, 90])}]
    tj, _ = G.gen_topology(rng, n_sites=rng.randint(3, 4), max_spans=3, whole_km=True, max_km=120,
                           user_amps=rng.random() < 0.5, dispersion_variants=per_channel_penalties)
    equipment = G.make_equipment(ej)
    network = G.make_network(tj, equipment)
    SimParams.set_params({})
    G.design(equipment, network)
    return ej, tj, equipment, network


def gen_batch(rng, trx, roadm_of):
    reqs, kinds = [], {}
    SYNCS.clear()
    n = rng.randint(2, 9)
    i = 0
    while i < n:
        a, z = rng.sample(trx, 2)
        kind = G.pick(rng, ['served', 'served', 'bidir', 'auto', 'impossible', 'hard-auto', 'strict-unsat', 'no-baud',
                            'no-spectrum', 'multi-slot', 'duplicate', 'served'])
        kw = dict(trx_type='Voyager', trx_mode='mode 1', spacing=G.pick(rng, [50e9, 62.5e9]),
                  max_nb=G.pick(rng, [None, 40]), path_bandwidth=G.pick(rng, [100e9, 200e9, 300e9]))
        if kind == 'bidir':
            kw['bidir'] = True
        elif kind == 'auto':
            kw.update(trx_mode=None, spacing=G.pick(rng, [50e9, 75e9, 87.5e9]))
        elif kind == 'impossible':
            kw.update(trx_mode='impossible')
        elif kind == 'hard-auto':
            kw.update(trx_type='hardTrx', trx_mode=None, spacing=75e9, bidir=rng.random() < 0.5)
        elif kind == 'strict-unsat':
            other = [s for s in roadm_of.values() if s not in (roadm_of[a], roadm_of[z])]
            kw['nodes'] = [G.pick(rng, other), roadm_of[a]] if other else [roadm_of[z], roadm_of[a]]
            kw['hops'] = ['STRICT', 'STRICT']
        elif kind == 'no-baud':
            kw.update(trx_mode=None, spacing=25e9)
        elif kind == 'no-spectrum':
            kw.update(path_bandwidth=100e9 * 120, max_nb=None)
        elif kind == 'not-enough':
            kw.update(slots=[{'N': rng.randrange(-200, 300), 'M': 4}], path_bandwidth=300e9, spacing=50e9)
        elif kind == 'multi-slot':
            c = rng.randrange(-200, 200)
            kw.update(slots=[{'N': c, 'M': 4}, {'N': c + 16, 'M': 4}, {'N': None, 'M': None}], path_bandwidth=300e9,
                      spacing=50e9)
        r = S.request(f'q{i}', a, z, **kw)
        reqs.append(r)
        kinds[r['request-id']] = kind
        i += 1
        if kind == 'duplicate' and i < n:
            r2_ = deepcopy(r)
            r2_['request-id'] = f'q{i}'
            r2_['path-constraints']['te-bandwidth']['path_bandwidth'] = G.pick(rng, [100e9, 200e9])
            if rng.random() < 0.25:
                # same request except for the direction flag: not identical, each keeps its own response (and the
                # bidirectional one its reverse-direction figures)
                r2_['bidirectional'] = not r2_['bidirectional']
            reqs.append(r2_)
            kinds[r2_['request-id']] = 'duplicate'
            i += 1
            if i < n and len(trx) >= 3 and not SYNCS and rng.random() < 0.5:
                # both identical requests must be disjoint from the same third request: they are still aggregated,
                # and the joined request inherits the disjunction
                t = S.request(f'q{i}', a, G.pick(rng, [x for x in trx if x not in (a, z)]), **dict(kw, bidir=False))
                reqs.append(t)
                kinds[t['request-id']] = 'duplicate-sync-peer'
                SYNCS.append(S.synchronization(900, [r['request-id'], t['request-id']]))
                SYNCS.append(S.synchronization(901, [r2_['request-id'], t['request-id']]))
                kinds[r['request-id']] = kinds[r2_['request-id']] = 'duplicate-in-sync'
                i += 1
    S.intify(rng, reqs)
    return reqs, kinds


def agg_key(r):
    te = r['path-constraints']['te-bandwidth']
    route = r.get('explicit-route-objects', {}).get('route-object-include-exclude', [])
    # "identical requests": every field of the request, the direction flag included
    return (r['source'], r['destination'], bool(r.get('bidirectional')), te['trx_type'], te['trx_mode'], te['spacing'],
            te.get('output-power'),
            te.get('max-nb-of-channel'), te.get('tx_power'),
            tuple((o['num-unnum-hop']['node-id'], o['num-unnum-hop']['hop-type']) for o in route))


def expected_groups(reqs):
    """Requests that are identical (mode given) and must be disjoint from the same other requests (or from none)
    are aggregated: sets of ids and summed bandwidth."""
    def peers(rid):
        return frozenset(x for sv in SYNCS if rid in sv['svec']['request-id-number']
                         for x in sv['svec']['request-id-number'] if x != rid)
    groups = []
    for r in reqs:
        te = r['path-constraints']['te-bandwidth']
        placed = False
        if te['trx_mode'] is not None:
            for g in groups:
                if g['key'] == agg_key(r) and g['mode'] is not None and g['peers'] == peers(r['request-id']):
                    g['ids'].append(r['request-id'])
                    g['bw'] += te['path_bandwidth']
                    placed = True
                    break
        if not placed:
            groups.append({'key': agg_key(r), 'mode': te['trx_mode'], 'ids': [r['request-id']], 'bw': te['path_bandwidth'],
                           'peers': peers(r['request-id'])})
    return groups


def metric_of(entries, name):
    for e in entries:
        if e['metric-type'] == name:
            return e['accumulative-value']
    return None


def expected_metrics(rx, rq):
    def pen(k):
        if k not in rx.penalties:
            return 'not evaluated'
        v = float(np.mean(rx.penalties[k]))
        return 'Infinity' if math.isinf(v) else r2(v)
    return {'SNR-bandwidth': r2(np.mean(rx.snr)), 'SNR-0.1nm': r2(np.mean(rx.snr_01nm)),
            'OSNR-bandwidth': r2(np.mean(rx.osnr_ase)), 'OSNR-0.1nm': r2(np.mean(rx.osnr_ase_01nm)),
            'lowest_SNR-0.1nm': r2(np.min(rx.snr_01nm)), 'biggest_SNR-0.1nm': r2(np.max(rx.snr_01nm)),
            'PDL_penalty': pen('pdl'), 'CD_penalty': pen('chromatic_dispersion'), 'PMD_penalty': pen('pmd'),
            'reference_power': rq.power, 'path_bandwidth': rq.path_bandwidth}


SYNCS = []
RECEIVER_KEYS = ('SNR-bandwidth', 'SNR-0.1nm', 'OSNR-bandwidth', 'OSNR-0.1nm', 'lowest_SNR-0.1nm', 'biggest_SNR-0.1nm',
                 'PDL_penalty', 'CD_penalty', 'PMD_penalty')


def check_against_events(ctx, doc, rqs, events):
    """The figures reported for a request are those its own last propagation ended with (per direction), whatever
    was propagated afterwards for other requests of the batch."""
    last = {}
    for rid, a, z, m in events:
        last[(rid, a, z)] = m
    for entry, rq in zip(doc['response'], rqs):
        props = entry.get('path-properties') or entry.get('no-path', {}).get('path-properties')
        if not props:
            continue
        for key, a, z in (('path-metric', rq.source, rq.destination), ('z-a-path-metric', rq.destination, rq.source)):
            if key not in props:
                continue
            ev = last.get((rq.request_id, a, z))
            ctx.count('reported_vs_event_checks')
            if ev is None:
                ctx.violation('metrics-without-propagation', f'response {rq.request_id}: {key} reported but no '
                              f'propagation {a} -> {z} was observed for this request')
                continue
            got = {e['metric-type']: e['accumulative-value'] for e in props[key]}
            if any(isinstance(v, float) and math.isnan(v) for v in ev.values()):
                # noise-dominated line far outside the regime of the models: the figures are not numbers
                ctx.skip('receiver-figures-not-a-number')
                continue
            diff = {k: (got.get(k), ev[k]) for k in RECEIVER_KEYS if ev[k] != got.get(k)}
            if diff:
                ctx.violation('metrics-not-own-propagation', f'response {rq.request_id}: {key} ({a} -> {z}) differs '
                              f'from the figures its own propagation ended with (reported, observed): {diff}')


def check_entry(ctx, entry, rq, path, rpath, group, equipment=None):
    rid = entry.get('response-id')
    where = f'response {rid}'
    reason = getattr(rq, 'blocking_reason', None)
    ctx.count('responses_checked')
    if reason in NOPATH:
        ctx.count('blocked')
        if set(entry) != {'response-id', 'no-path'} or entry['no-path'] != {'no-path': reason}:
            ctx.violation('no-path-entry', f'{where}: blocked with {reason} but the entry is {entry}')
        return
    if reason is not None:
        ctx.count('blocked')
        if 'no-path' not in entry or entry['no-path'].get('no-path') != reason or 'path-properties' in entry:
            ctx.violation('blocking-reason', f'{where}: request blocked with {reason}, entry says '
                          f'{entry.get("no-path", {}).get("no-path")} / served={"path-properties" in entry}')
            return
        props = entry['no-path'].get('path-properties')
    else:
        ctx.count('served')
        if 'no-path' in entry or 'path-properties' not in entry:
            ctx.violation('served-entry', f'{where}: request served but the entry carries {list(entry)}')
            return
        props = entry['path-properties']
    if props is None:
        ctx.violation('path-properties-missing', f'{where}: no path properties')
        return
    objs = [o['path-route-object'] for o in props['path-route-objects']]
    hops = [o['num-unnum-hop']['node-id'] for o in objs if 'num-unnum-hop' in o]
    labels = [o['label-hop'] for o in objs if 'label-hop' in o]
    trxs = [o['transponder'] for o in objs if 'transponder' in o]
    if [o['index'] for o in objs] != list(range(len(objs))):
        ctx.violation('route-object-index', f'{where}: route object indices are not 0..n-1')
    if hops != [n.uid for n in path]:
        ctx.violation('route-hops', f'{where}: hop list differs from the computed path',
                      {'reported': hops[:8], 'computed': [n.uid for n in path][:8]})
    exp_trx = {'transponder-type': rq.tsp, 'transponder-mode': rq.tsp_mode}
    n_trx = sum(1 for n in path if isinstance(n, Transceiver))
    if trxs != [exp_trx] * n_trx:
        ctx.violation('transponder', f'{where}: transponder objects {trxs[:2]}, selected {exp_trx}')
    if reason is None:
        exp_label = [{'N': n, 'M': m} for n, m in zip(rq.N, rq.M)]
        if labels != [exp_label] * len(path):
            ctx.violation('labels', f'{where}: label objects {labels[:1]} differ from the assigned N/M {exp_label} '
                          f'(one per hop expected: {len(labels)} for {len(path)} hops)')
        if len(rq.N) > 1:
            ctx.count('multi_slot_served')
    elif labels:
        ctx.violation('labels-on-blocked', f'{where}: blocked ({reason}) but carries labels {labels[:1]}')
    # metrics
    exp = expected_metrics(path[-1], rq)
    got = {e['metric-type']: e['accumulative-value'] for e in props['path-metric']}
    if any(isinstance(v, float) and math.isnan(v) for v in exp.values()):
        ctx.skip('receiver-figures-not-a-number')
    elif exp != got:         # (expected values on the left: they carry the "rounded to two decimals" comparison)
        diff = {k: (got.get(k), exp[k]) for k in exp if exp[k] != got.get(k)}
        ctx.violation('metrics', f'{where}: reported metrics differ from the forward receiver: {diff}')
    # the reported mode is the one the reported figures were computed with: the figure in 0.1 nm and the one in the signal
    # bandwidth differ by the ratio of that mode's baud rate to 12.5 GHz (two rounded values: 0.011 dB)
    mode_name = trxs[0]['transponder-mode'] if trxs else None
    if equipment is not None and mode_name is not None and rq.tsp in equipment['Transceiver'] and \
            not any(isinstance(v, float) and math.isnan(v) for v in got.values()):
        md = next((m for m in equipment['Transceiver'][rq.tsp].mode if m['format'] == mode_name), None)
        if md is not None:
            ctx.count('reported_mode_vs_figures_checks')
            for key in ('path-metric', 'z-a-path-metric'):
                if key not in props:
                    continue
                mm = {e['metric-type']: e['accumulative-value'] for e in props[key]}
                for a, b in (('SNR-0.1nm', 'SNR-bandwidth'), ('OSNR-0.1nm', 'OSNR-bandwidth')):
                    if isinstance(mm.get(a), (int, float)) and isinstance(mm.get(b), (int, float)) and \
                            math.isfinite(mm[a]) and math.isfinite(mm[b]):
                        exp_d = 10 * math.log10(md['baud_rate'] / 12.5e9)
                        if abs((mm[a] - mm[b]) - exp_d) > 0.0111:
                            ctx.violation('mode-and-figures-disagree', f'{where}: reported mode {mode_name} '
                                          f'({md["baud_rate"] * 1e-9:.1f} GBd) but {key} {a} - {b} = {mm[a] - mm[b]:.2f} dB, '
                                          f'a baud rate of {12.5 * 10 ** ((mm[a] - mm[b]) / 10):.1f} GBd')
                            break
    if rq.bidir:
        ctx.count('bidirectional')
        if 'z-a-path-metric' not in props:
            # every bidirectional request that got as far as a propagation (served, or blocked by its mode or by the
            # spectrum) states both directions
            ctx.violation('reverse-metrics-missing', f'{where}: bidirectional request ({reason or "served"}) with forward '
                          'metrics but without the Z to A direction')
        elif not rpath:
            ctx.violation('reverse-metrics', f'{where}: reverse metrics reported but no reverse propagation exists')
        else:
            expr = expected_metrics(rpath[-1], rq)
            gotr = {e['metric-type']: e['accumulative-value'] for e in props.get('z-a-path-metric', [])}
            if any(isinstance(v, float) and math.isnan(v) for v in expr.values()):
                ctx.skip('receiver-figures-not-a-number')
            elif expr != gotr:
                diff = {k: (gotr.get(k), expr[k]) for k in expr if expr[k] != gotr.get(k)}
                fwd = exp
                mech = None
                ctx.violation('reverse-metrics', f'{where}: reverse-direction metrics differ from the reverse receiver: '
                              f'{diff}' + (' (they equal the forward ones)' if fwd == gotr else ''))
    elif 'z-a-path-metric' in props:
        ctx.violation('reverse-metrics', f'{where}: unidirectional request carries reverse metrics')
    if abs(rq.path_bandwidth - group['bw']) > 1e-3:
        ctx.violation('aggregated-bandwidth', f'{where}: path bandwidth {rq.path_bandwidth}, the aggregated requests '
                      f'{group["ids"]} sum to {group["bw"]}')


def check_csv(ctx, doc, equipment, rqs, paths, rpaths, margin):
    buf = io.StringIO()
    jsontocsv(doc, equipment, buf)
    rows = list(csv.DictReader(io.StringIO(buf.getvalue())))
    if len(rows) != len(doc['response']):
        ctx.violation('csv-rows', f'CSV has {len(rows)} rows for {len(doc["response"])} responses')
        return
    for row, rq, path, rpath in zip(rows, rqs, paths, rpaths):
        ctx.count('csv_rows_checked')
        reason = getattr(rq, 'blocking_reason', None)
        where = f'CSV row {row["response-id"]}'
        if row['response-id'] != rq.request_id:
            ctx.violation('csv-id', f'{where}: expected id {rq.request_id}')
            continue
        if reason in NOPATH:
            if row['Pass?'] != reason or any(row[k] for k in row if k not in ('response-id', 'Pass?')):
                ctx.violation('csv-no-path', f'{where}: blocked {reason}: row {dict(row)}')
            continue
        rx = path[-1]
        mode = next(m for m in equipment['Transceiver'][rq.tsp].mode if m['format'] == rq.tsp_mode)
        exp = {'source': path[0].uid, 'destination': path[-1].uid, 'transponder-type': rq.tsp,
               'transponder-mode': rq.tsp_mode,
               'OSNR-0.1nm (average)': r2(r2(np.mean(rx.osnr_ase_01nm))), 'SNR-0.1nm (average)': r2(r2(np.mean(rx.snr_01nm))),
               'SNR-bandwidth (average)': r2(r2(np.mean(rx.snr))), 'SNR-0.1nm (min)': r2(np.min(rx.snr_01nm)),
               'SNR-0.1nm (max)': r2(np.max(rx.snr_01nm)),
               'min required OSNR (inc. margin)': mode['OSNR'] + margin, 'baud rate (Gbaud)': round(mode['baud_rate'] * 1e-9, 2),
               'bit rate': round(mode['bit_rate'] * 1e-9, 2),
               'path': ' | '.join(n.uid for n in path)}
        for k, v in exp.items():
            got = row[k]
            if isinstance(v, R2):
                ok = got != '' and v == float(got)
            else:
                ok = (abs(float(got) - v) < 1e-9) if isinstance(v, (int, float)) and got != '' else (got == str(v))
            if not ok:
                ctx.violation('csv-field', f'{where}: column "{k}" = {got!r}, expected {v!r}')
                break
        if reason is None:
            # (the stated worst-channel value was compared with the receiver just above)
            exp_pass = float(row['SNR-0.1nm (min)']) >= mode['OSNR'] + margin
            if row['Pass?'] != str(exp_pass):
                ctx.violation('csv-pass-flag', f'{where}: Pass? = {row["Pass?"]}, worst SNR {row["SNR-0.1nm (min)"]} vs '
                              f'threshold {mode["OSNR"] + margin}')
            exp_spec = f'{list(rq.N)}, {list(rq.M)}'
            if row['spectrum (N,M)'] != exp_spec:
                ctx.violation('csv-spectrum', f'{where}: spectrum column {row["spectrum (N,M)"]!r}, assigned {exp_spec!r}')
            if abs(float(row['path_bandwidth']) - round(rq.path_bandwidth * 1e-9, 2)) > 1e-9:
                ctx.violation('csv-bandwidth', f'{where}: path_bandwidth {row["path_bandwidth"]}')
        else:
            if row['Pass?'] != reason:
                ctx.violation('csv-pass-flag', f'{where}: blocked with {reason} but Pass? = {row["Pass?"]}')
            if row['spectrum (N,M)']:
                ctx.violation('csv-spectrum', f'{where}: blocked but spectrum column is {row["spectrum (N,M)"]!r}')
        if rq.bidir and rpath:
            rrx = rpath[-1]
            if r2(np.min(rrx.snr_01nm)) != float(row['reversed path SNR-0.1nm (min)']):
                ctx.violation('csv-reverse', f'{where}: reversed path SNR-0.1nm (min) = '
                              f'{row["reversed path SNR-0.1nm (min)"]}, reverse receiver has {r2(np.min(rrx.snr_01nm))}')


def check_csv_pass_threshold(ctx, doc, ej, rqs, paths, margin):
    """Same response, library whose threshold lies between the worst and the average channel: Pass? must be False."""
    for k, (rq, path) in enumerate(zip(rqs, paths)):
        if getattr(rq, 'blocking_reason', None) is not None or not path:
            continue
        rx = path[-1]
        lo, avg = r2(np.min(rx.snr_01nm)), r2(np.mean(rx.snr_01nm))
        if avg - lo < 0.04:
            continue
        ej2 = deepcopy(ej)
        for t in ej2['Transceiver']:
            if t['type_variety'] == rq.tsp:
                for m in t['mode']:
                    if m['format'] == rq.tsp_mode:
                        m['OSNR'] = (lo + avg) / 2 - margin
        eq2 = G.make_equipment(ej2)
        buf = io.StringIO()
        jsontocsv({'response': [doc['response'][k]]}, eq2, buf)
        row = list(csv.DictReader(io.StringIO(buf.getvalue())))[0]
        ctx.count('csv_pass_threshold_checks')
        if row['Pass?'] != 'False':
            ctx.violation('csv-pass-flag', f'CSV row {row["response-id"]}: worst channel {lo} dB is below the threshold '
                          f'{(lo + avg) / 2:.3f} dB (average {avg}) but Pass? = {row["Pass?"]}')
        return


def check_csv_pass_boundary(ctx, doc, ej, rqs, paths, margin):
    """Same response, library whose margin-inclusive threshold equals the reported worst SNR exactly (in floats, as
    `jsontocsv` adds them) and lies 0.01 dB above it: 'at least the threshold' passes, anything below does not."""
    for k, (rq, path) in enumerate(zip(rqs, paths)):
        if getattr(rq, 'blocking_reason', None) is not None or not path:
            continue
        buf = io.StringIO()
        jsontocsv({'response': [doc['response'][k]]}, G.make_equipment(deepcopy(ej)), buf)
        stated = list(csv.DictReader(io.StringIO(buf.getvalue())))[0]['SNR-0.1nm (min)']
        if stated == '' or r2(np.min(path[-1].snr_01nm)) != float(stated):
            continue                            # (judged by check_csv)
        lo = float(stated)
        osnr = lo - margin
        for _ in range(8):                     # OSNR + margin must reproduce lo bit for bit
            if osnr + margin == lo:
                break
            osnr = float(np.nextafter(osnr, osnr + (lo - (osnr + margin))))
        if osnr + margin != lo:
            continue
        for shift, expected in ((0.0, 'True'), (0.01, 'False')):
            ej2 = deepcopy(ej)
            for t in ej2['Transceiver']:
                if t['type_variety'] == rq.tsp:
                    for m in t['mode']:
                        if m['format'] == rq.tsp_mode:
                            m['OSNR'] = osnr + shift
            if shift and not (osnr + shift) + margin > lo:
                continue
            buf = io.StringIO()
            jsontocsv({'response': [doc['response'][k]]}, G.make_equipment(ej2), buf)
            row = list(csv.DictReader(io.StringIO(buf.getvalue())))[0]
            if float(row['SNR-0.1nm (min)']) != lo:
                continue
            ctx.count('csv_pass_boundary_checks')
            if row['Pass?'] != expected:
                ctx.violation('csv-pass-flag', f'CSV row {row["response-id"]}: worst channel {lo} dB against the threshold '
                              f'{row["min required OSNR (inc. margin)"]} dB (margin included): Pass? = {row["Pass?"]}, '
                              f'expected {expected}')
        return


def run_case(case, ctx):
    rng = ctx.rng
    ej, tj, equipment, network = build(rng)
    model = S.SiteModel(network)
    trx = sorted(model.roadm_of)
    reqs, kinds = gen_batch(rng, trx, model.roadm_of)
    data = {'path-request': reqs}
    if SYNCS:
        data['synchronization'] = deepcopy(SYNCS)
        ctx.count('batches_with_aggregated_requests_in_a_disjunction')
    ctx.dump.update({'topology': tj, 'services': data})
    groups = expected_groups(reqs)
    # event log: the receiver figures at the moment each propagation of the batch ends (copied values, not objects)
    events = []
    orig_p, orig_o = RQ.propagate, RQ.propagate_and_optimize_mode

    def rec(path, req):
        m = expected_metrics(path[-1], req)
        events.append((req.request_id, path[0].uid, path[-1].uid, {k: m[k] for k in RECEIVER_KEYS}))

    def wp(path, req, equipment):
        r = orig_p(path, req, equipment)
        rec(path, req)
        return r

    def wo(path, req, equipment):
        pth, mode = orig_o(path, req, equipment)
        if pth and pth[-1].snr is not None:
            rec(pth, req)
        return pth, mode
    RQ.propagate, RQ.propagate_and_optimize_mode = wp, wo
    try:
        oms_list, prop, rprop, rqs, dsjn, result = planning(network, equipment, deepcopy(data))
    finally:
        RQ.propagate, RQ.propagate_and_optimize_mode = orig_p, orig_o
    doc = results_to_json(result)
    check_against_events(ctx, doc, rqs, events)
    margin = ej['SI'][0]['sys_margins']
    # one entry per (aggregated) request
    got_ids = [e['response-id'] for e in doc['response']]
    exp_sets = [frozenset(g['ids']) for g in groups]
    got_sets = [frozenset(i.split(' | ')) for i in got_ids]
    if sorted(map(sorted, got_sets)) != sorted(map(sorted, exp_sets)):
        ctx.violation('response-ids', f'responses {got_ids} do not cover each (aggregated) request exactly once: '
                      f'expected {[sorted(s) for s in exp_sets]}')
        return
    if any(len(s) > 1 for s in got_sets):
        ctx.count('aggregated', sum(1 for s in got_sets if len(s) > 1))
    reasons = set()
    for entry, rq, path, rpath in zip(doc['response'], rqs, prop, rprop):
        if entry['response-id'] != rq.request_id:
            ctx.violation('response-order', f'entry {entry["response-id"]} does not match request {rq.request_id}')
            continue
        g = next(g for g in groups if frozenset(g['ids']) == frozenset(rq.request_id.split(' | ')))
        check_entry(ctx, entry, rq, path, rpath, g, equipment)
        reasons.add(getattr(rq, 'blocking_reason', None))
    check_csv(ctx, doc, equipment, rqs, prop, rprop, margin)
    check_csv_pass_threshold(ctx, doc, ej, rqs, prop, margin)
    check_csv_pass_boundary(ctx, doc, ej, rqs, prop, margin)
    for r in reasons:
        if r:
            ctx.cls(f'reason:{r}')
    ctx.count('blocking_reasons_seen', len([r for r in reasons if r]))
    ctx.cls(*(f'kind:{k}' for k in kinds.values()))
    if (None in reasons and len(reasons) > 1) or any(k in ('bidir', 'duplicate', 'multi-slot') for k in kinds.values()):
        ctx.nontrivial((P.digest(tj), P.digest(data)))
    if not ctx.samples:
        ctx.sample({'batch': [{'id': r['request-id'], 'kind': kinds[r['request-id']]} for r in reqs],
                    'responses': [{'id': e['response-id'], 'blocked': e.get('no-path', {}).get('no-path')}
                                  for e in doc['response']]})
    if not ctx.violations:
        ctx.dump.clear()
