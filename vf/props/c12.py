"""C12 - requests declared disjoint never share a link in either direction.

Monitor: the paths returned by the real computation for every synchronisation group are recorded; link identity is
computed independently (unordered ROADM pairs); for single pairs an independent brute force over all simple
ROADM-level routes decides whether a disjoint, STRICT-respecting pair exists and the code must return one iff it does;
a raised disjunction error is cross-checked the same way.
"""
from copy import deepcopy
from itertools import product

from gnpy.core.exceptions import DisjunctionError
from gnpy.core.parameters import SimParams
from gnpy.tools.json_io import requests_from_json, disjunctions_from_json
from gnpy.topology.request import (correct_json_route_list, compute_path_dsjctn, deduplicate_disjunctions,
                                   requests_aggregation)

from vf.gen import common as G, services as S
from vf.props import _prop_common as P
from vf.props.c11 import build, check_valid_path

ID = 'C12'
RULE = ('generated meshes (3..6 sites, dense and sparse link sets, asymmetric directions) x batches holding one or '
        'several synchronisation groups: pairs (same or different end points), triples, overlapping groups, with '
        'ROADM / line-element include lists (LOOSE and STRICT) on some members, plus unrelated requests. Each group of '
        'each batch is one observation. Non-trivial: a group for which both a disjoint and an overlapping combination '
        'of routes exist, or for which no disjoint combination exists. Distinct: hash of (topology, batch).')
ASSUMPTIONS = ['no parallel links between one ROADM pair (documented limitation of the reverse-path lookup)',
               'completeness judged for single pairs only; larger / overlapping groups are judged for soundness, and an '
               'error raised for them is accepted when brute force over the whole group finds no solution either or '
               'the group is larger than a pair', 'all candidate routes have fewer than 80 elements']
REQUIRED_COUNTERS = {'groups_judged': 80, 'pairs_with_solution': 30, 'pairs_without_solution': 3,
                     'larger_groups': 10, 'link_disjointness_checks': 80}
CASE_TIMEOUT = {'quick': 200, 'thorough': 400}


def plan(tier, seed):
    n = 720 if tier == 'quick' else 6000
    return [{'idx': i} for i in range(n)]


def ulinks(model, uids):
    return {frozenset(l) for l in model.path_links(uids)}


def strict_ok(model, uids, nodes, hops):
    strict = [n for n, h in zip(nodes, hops) if h == 'STRICT']
    return S.in_order(strict, uids)


def candidate_routes(model, m):
    """All simple routes (element uid lists) of a request that respect its STRICT entries."""
    a, z = model.roadm_of[m['src']], model.roadm_of[m['dst']]
    out = []
    for route in model.simple_site_paths(a, z):
        for els, _ in model.expand(route):
            p = [m['src']] + els + [m['dst']]
            if strict_ok(model, p, m['nodes'], m['hops']):
                out.append(p)
    return out


def exists_disjoint(model, members, cap=200000):
    cands = [candidate_routes(model, m) for m in members]
    links = [[ulinks(model, p) for p in c] for c in cands]
    n = 1
    for c in cands:
        n *= max(1, len(c))
    if n > cap:
        return None
    if any(not c for c in cands):
        return False
    for combo in product(*[range(len(c)) for c in cands]):
        sets = [links[i][k] for i, k in enumerate(combo)]
        ok = True
        for i in range(len(sets)):
            for j in range(i + 1, len(sets)):
                if sets[i] & sets[j]:
                    ok = False
                    break
            if not ok:
                break
        if ok:
            return True
    return False


def run_batch(ctx, rng, ej, tj, equipment, network, model, batch_no):
    trx = sorted(model.roadm_of)
    pairs = [(a, z) for a in trx for z in trx if a != z]
    shape = rng.choice(['pair', 'pair', 'pair', 'pair-same-ends', 'triple', 'overlap', 'two-pairs'])
    reqs, meta, groups = [], {}, []
    rid = 0

    def add(a, z, constrained):
        nonlocal rid
        nodes, hops = [], []
        if constrained:
            routes = model.simple_site_paths(model.roadm_of[a], model.roadm_of[z])
            if routes:
                route = rng.choice(routes)
                uid_path, _ = model.expand(route)[0]
                kind = rng.choice(['roadm', 'roadm', 'line', 'line-first', 'unsat-loose'])
                inner_r = [u for u in uid_path[2:-2] if u.startswith('roadm')]
                first_after = [uid_path[i + 1] for i, u in enumerate(uid_path[1:-2], 1) if u.startswith('roadm')]
                line = [u for u in uid_path if u in model.element_link]
                if kind == 'unsat-loose':
                    # a LOOSE entry that no route of this request can meet (an element of a link that ENTERS the
                    # source site): the constraint is dropped for this request - and only for this one
                    src_site = model.roadm_of[a]
                    pool = [u for u, (x, y, _) in model.element_link.items() if y == src_site]
                    if pool:
                        nodes, hops = [rng.choice(pool)], ['LOOSE']
                        ctx.count('members_with_unsatisfiable_loose_entry')
                else:
                    pool = inner_r if kind == 'roadm' else (first_after if kind == 'line-first' else line)
                    if pool:
                        nodes = [rng.choice(pool)]
                        hops = [rng.choice(['STRICT', 'LOOSE'])]
        i = str(rid)
        raw_nodes, raw_hops = list(nodes), list(hops)
        if rng.random() < (0.3 if nodes else 0.08):
            # LOOSE entries naming nothing usable (a typo, another transceiver) are skipped with a warning: the entries
            # that follow keep their meaning, STRICT included
            for _ in range(rng.choice([1, 2, 2, 3])):
                k = rng.randint(0, len(raw_nodes))
                bad = rng.choice(['no such element', 'nowhere', rng.choice([t for t in trx if t not in (a, z)] or ['x'])])
                raw_nodes.insert(k, bad)
                raw_hops.insert(k, 'LOOSE')
            ctx.count('members_with_unusable_loose_names')
        reqs.append(S.request(i, a, z, nodes=raw_nodes, hops=raw_hops, trx_mode='mode 1'))
        meta[i] = {'src': a, 'dst': z, 'nodes': nodes, 'hops': hops}
        rid += 1
        return i

    a, z = rng.choice(pairs)
    con = rng.random() < 0.3
    if shape == 'pair':
        b, y = rng.choice(pairs)
        groups.append([add(a, z, con), add(b, y, rng.random() < (0.7 if con else 0.2))])
    elif shape == 'pair-same-ends':
        groups.append([add(a, z, con), add(a, z, False)])
    elif shape == 'triple':
        b, y = rng.choice(pairs)
        groups.append([add(a, z, con), add(b, y, rng.random() < 0.25), add(*rng.choice(pairs), rng.random() < 0.25)])
    elif shape == 'overlap':
        # (any member may carry a route constraint, also the ones that only belong to the group processed later)
        r0, r1, r2 = add(a, z, con), add(*rng.choice(pairs), rng.random() < 0.3), add(*rng.choice(pairs), rng.random() < 0.4)
        groups += [[r0, r1], [r0, r2]] if rng.random() < 0.7 else [[r0, r2], [r1, r0]]
    else:
        groups += [[add(a, z, con), add(*rng.choice(pairs), rng.random() < 0.25)],
                   [add(*rng.choice(pairs), rng.random() < 0.25), add(*rng.choice(pairs), False)]]
    for _ in range(rng.randint(0, 2)):
        add(*rng.choice(pairs), False)
    # identical requests would be aggregated (ids joined): keep every request distinct by its bandwidth
    for k, r in enumerate(reqs):
        r['path-constraints']['te-bandwidth']['path_bandwidth'] = 100e9 * (k + 1)
        r['path-constraints']['te-bandwidth']['spacing'] = [50e9, 62.5e9, 75e9, 87.5e9, 100e9][k % 5]
    data = {'path-request': reqs,
            'synchronization': [S.synchronization(100 + k, g) for k, g in enumerate(groups)]}
    rqs = requests_from_json(deepcopy(data), equipment)
    rqs = correct_json_route_list(network, rqs)
    dsjn = deduplicate_disjunctions(disjunctions_from_json(deepcopy(data)))
    err = None
    try:
        paths = compute_path_dsjctn(network, equipment, rqs, dsjn)
    except DisjunctionError as e:
        err = e
        paths = None
    ctx.cls(f'shape:{shape}')
    for g in groups:
        members = [meta[i] for i in g]
        ctx.count('groups_judged')
        if len(g) > 2:
            ctx.count('larger_groups')
        sol = exists_disjoint(model, members)
        if sol is None:
            ctx.skip('brute-force-too-large')
            continue
        single_pair = len(g) == 2 and len(groups) == 1
        if single_pair:
            ctx.count('pairs_with_solution' if sol else 'pairs_without_solution')
        if err is not None:
            if sol and single_pair:
                mech = None
                if any(n in model.element_link and not is_first_after_roadm(model, n) and h == 'STRICT'
                       for m in members for n, h in zip(m['nodes'], m['hops'])):
                    mech = 'disjunction-strict-include-inside-oms'
                ctx.violation('disjoint-pair-not-found', f'group {g}: a disjoint pair of routes respecting the STRICT '
                              f'entries exists but the computation stopped with a disjunction error',
                              {'members': members}, mechanism=mech)
            else:
                ctx.cls('outcome:error-accepted')
            continue
        # paths returned
        got = {}
        for rq, p in zip(rqs, paths):
            if rq.request_id in g:
                got[rq.request_id] = [n.uid for n in p]
        if not sol:
            if len(g) == 2 or all(got.get(i) for i in g):
                # soundness below decides; a pair without solution must not be served
                pass
        ctx.count('link_disjointness_checks')
        bad = False
        for x in range(len(g)):
            for y in range(x + 1, len(g)):
                px, py = got.get(g[x], []), got.get(g[y], [])
                if not px or not py:
                    ctx.violation('group-member-without-path', f'group {g}: member without route and no error raised')
                    bad = True
                    break
                common = ulinks(model, px) & ulinks(model, py)
                if common:
                    ctx.violation('shared-link', f'group {g}: requests {g[x]} and {g[y]} share the link(s) '
                                  f'{[sorted(c) for c in common]} (either direction)',
                                  {'route_x': model.path_sites(px), 'route_y': model.path_sites(py)})
                    bad = True
                    break
            if bad:
                break
        if bad:
            continue
        for i in g:
            m = meta[i]
            rq = next(r for r in rqs if r.request_id == i)
            p = next(pp for r, pp in zip(rqs, paths) if r.request_id == i)
            if not check_valid_path(ctx, model, network, i, m['src'], m['dst'], p):
                bad = True
                break
            if not strict_ok(model, got[i], m['nodes'], m['hops']):
                ctx.violation('strict-not-respected', f'group {g}: request {i} does not cross its STRICT include '
                              f'{m["nodes"]}', {'route': model.path_sites(got[i])})
                bad = True
        if not bad and sol is False:
            ctx.violation('impossible-solution', f'group {g}: brute force finds no disjoint combination but paths were '
                          'returned and judged disjoint (oracle inconsistency)')
        # non-trivial: a disjoint and an overlapping combination both exist, or none exists
        if sol is False or overlapping_exists(model, members):
            ctx.nontrivial((P.digest(tj), batch_no, [(m['src'], m['dst'], m['nodes'], m['hops']) for m in members]))
        if not ctx.samples and not bad:
            ctx.sample({'group': g, 'members': members, 'routes': {i: model.path_sites(got[i]) for i in g},
                        'disjoint_solution_exists': sol})


def run_identical(ctx, rng, equipment, network, model):
    """Identical requests (same end points, mode, spacing ...) in overlapping synchronisation groups, taken through the
    steps planning() takes before routing: de-duplication of the groups and aggregation of identical requests.  Two
    requests that a group of the input declares disjoint must still end on routes without a common link - in particular
    they must not be merged into one request."""
    trx = sorted(model.roadm_of)
    a, z = rng.sample(trx, 2)
    n = rng.randint(3, 5)
    n_other = rng.choice([0, 0, 1, 2])
    if rng.random() < 0.5:
        ids = [chr(ord('a') + i) for i in range(n + n_other)]
    else:
        # ids that contain one another as text ('1' in '11 | 12'): the joined id of an aggregate is a label, not a set
        ids = rng.sample(['1', '11', '12', '2', '21', '112', 'r1', 'r11', 'r10'], n + n_other)
        ctx.count('identical_batches_with_nested_ids')
    reqs = [S.request(i, a, z, trx_mode='mode 1') for i in ids[:n]]
    pairs = [(x, y) for x in trx for y in trx if x != y and (x, y) != (a, z)]
    for i in ids[n:]:
        # requests that are not identical to the others (other end points) and take part in the groups as well
        x, y = rng.choice(pairs)
        reqs.append(S.request(i, x, y, trx_mode='mode 1'))
    rng.shuffle(reqs)
    n = len(ids)
    groups = []
    for _ in range(rng.randint(2, 3)):
        g = rng.sample(ids, rng.randint(2, min(3, n)))
        if sorted(g) not in [sorted(x) for x in groups]:
            groups.append(g)
    data = {'path-request': reqs, 'synchronization': [S.synchronization(200 + k, g) for k, g in enumerate(groups)]}
    rqs = requests_from_json(deepcopy(data), equipment)
    rqs = correct_json_route_list(network, rqs)
    dsjn = deduplicate_disjunctions(disjunctions_from_json(deepcopy(data)))
    ctx.count('identical_request_batches')
    try:
        rqs, dsjn = requests_aggregation(rqs, dsjn)
        paths = compute_path_dsjctn(network, equipment, rqs, dsjn)
    except DisjunctionError:
        ctx.cls('identical:error')
        return
    owner = {}
    for rq, pth in zip(rqs, paths):
        for i in rq.request_id.split(' | '):
            owner[i] = (rq.request_id, [e.uid for e in pth])
    for g in groups:
        for x in range(len(g)):
            for y in range(x + 1, len(g)):
                (ox, px), (oy, py) = owner[g[x]], owner[g[y]]
                ctx.count('identical_pairs_checked')
                if ox == oy:
                    ctx.violation('disjoint-requests-aggregated', f'groups {groups}: requests {g[x]} and {g[y]} are declared '
                                  f'disjoint but were merged into one request ({ox}) and share their whole route',
                                  {'responses': sorted({v[0] for v in owner.values()})},
                                  mechanism='aggregation-merges-requests-declared-disjoint')
                    return
                if px and py and ulinks(model, px) & ulinks(model, py):
                    ctx.violation('shared-link', f'groups {groups} (identical requests): {g[x]} and {g[y]} share a link',
                                  {'route_x': model.path_sites(px), 'route_y': model.path_sites(py)})
                    return
    ctx.cls('identical:served')


def is_first_after_roadm(model, uid):
    a, b, k = model.element_link[uid]
    return model.links[(a, b)][k][0][0] == uid


def overlapping_exists(model, members):
    cands = [candidate_routes(model, m) for m in members[:2]]
    if len(cands) < 2:
        return False
    for p in cands[0][:50]:
        for q in cands[1][:50]:
            if ulinks(model, p) & ulinks(model, q):
                return True
    return False


def run_case(case, ctx):
    rng = ctx.rng
    dense = rng.random() < 0.6
    n = rng.randint(3, 6)
    ej, tj, equipment, network, oms_list = build(rng, n_sites=n, extra_links=rng.randint(1, 2 * n) if dense else
                                                 rng.randint(0, 1), max_spans=2, long_fibers=False, user_amps=rng.random() < 0.5)
    model = S.SiteModel(network)
    ctx.dump.update({'topology': tj})
    for b in range(6):
        run_batch(ctx, rng, ej, tj, equipment, network, model, b)
        if any(v['mechanism'] is None for v in ctx.violations):
            return
    if len(model.roadm_of) >= 2:
        run_identical(ctx, rng, equipment, network, model)
    if not ctx.violations:
        ctx.dump.clear()
