"""C09 - designed gains close the power budget and follow the documented power rule.

Monitor: after designed_network() an independent OMS walker (written from docs/json.rst and the OFC'19 rule) is run
over the designed network and the input documents: I1 gain = loss since the previous amplifier + change of target;
I2 offsets left to auto-design follow slope x (next span loss - reference), rounded to the step, clamped, 0 before a
ROADM, shifted by a user-set VOA and lowered only to respect p_max / the extended gain range, then exactly;
I3 operator gains are kept in gain mode unless saturating; I4 the design comb is propagated along every OMS and the
per-channel signal power at every amplifier and ROADM output is compared with reference + offset - VOA / the target.
"""
import math
from copy import deepcopy

import numpy as np

from gnpy.core.elements import Transceiver, Roadm, Fiber, RamanFiber, Edfa, Multiband_amplifier, Fused
from gnpy.core.parameters import SimParams
from gnpy.core.utils import dbm2watt

from vf import workload as W
from vf.gen import common as G, eqpt as GE
from vf.props import _prop_common as P

ID = 'C09'
RULE = ('generated meshes (user amplifiers with full / partial / no settings incl. operator gains, offsets, VOAs, '
        'variety lists; fused junctions; short and long spans) x generated Span/SI/ROADM configurations (power and gain '
        'mode, delta_power_range incl. [0,0,0], slope, reference loss, padding, EOL, connector defaults, PSD/PSW '
        'policies, per-degree targets, reference channel count on/off). Every amplifier of every single-band OMS is '
        'one observation for I1/I2/I3; every amplifier/ROADM crossing of the propagated design comb one for I4. '
        'Non-trivial: an OMS with >=2 amplifiers. Distinct: hash of (configuration, topology).'
        ' Also point-to-point lines without ROADMs, transceivers attached through a line, amplifier types with automatic output VOA, offset ranges off the step grid and other reference channels than 32 GBd / 50 GHz.')
ASSUMPTIONS = ['single-band OMS without Raman fibre are walked; multiband and Raman OMS are counted and skipped',
               'offsets exactly on a rounding tie of the step are not judged',
               'amplifier models with automatic output VOA are judged for I1 and I4 only',
               'I4: signal power may be lower than the design value by at most the accumulated noise share']
REQUIRED_COUNTERS = {'amplifiers_walked': 300, 'i1_checks': 300, 'i2_rule_checks': 150, 'i4_amp_checks': 150,
                     'i4_roadm_checks': 50, 'power_reductions_seen': 3, 'operator_gain_kept': 5}
CASE_TIMEOUT = {'quick': 200, 'thorough': 400}


def plan(tier, seed):
    n = 1200 if tier == 'quick' else 16000
    return [{'idx': i, 'kind': ['mesh', 'mesh', 'sat', 'mesh', 'p2p', 'mesh', 'sat', 'mesh'][i % 8]} for i in range(n)]


def db(x):
    return 10 * math.log10(x)


def nch(f_min, f_max, spacing):
    return int((f_max - f_min) // spacing)


def round_step(x, step):
    """(value rounded to the step, is_tie)"""
    if step < 0.01:
        step = 0.01
    q = x / step
    tie = abs(abs(q - math.floor(q)) - 0.5) < 1e-6
    return round(round(q) * step, 10), tie


class Walker:
    def __init__(self, ctx, ej, tj, equipment, network, design_power_dbm=None):
        self.ctx, self.ej, self.tj, self.eq, self.net = ctx, ej, tj, equipment, network
        self.span = ej['Span'][0]
        self.si = ej['SI'][0]
        self.power_mode = self.span.get('power_mode', True)
        self.orig = {e['uid']: e for e in tj['elements']}
        # reference power of the design: the SI value unless the design was asked for another one (the --power option
        # of the scripts, a power sweep)
        self.pref = self.si.get('power_dbm', 0) if design_power_dbm is None else design_power_dbm
        self.lib = {e['type_variety']: e for e in ej['Edfa']}
        self.roadm_lib = {r.get('type_variety', 'default'): r for r in ej['Roadm']}

    # -- configuration level quantities -------------------------------------------------------------------
    def ref_nch(self):
        return nch(self.si['f_min'], self.si['f_max'], self.si['spacing'])

    def roadm_ref_target(self, roadm_uid, degree):
        e = self.orig[roadm_uid]
        p = e.get('params', {})
        baud, slot = self.si['baud_rate'], self.si['spacing']
        if degree in p.get('per_degree_pch_out_db', {}):
            return p['per_degree_pch_out_db'][degree]
        if degree in p.get('per_degree_psd_out_mWperGHz', {}):
            return db(p['per_degree_psd_out_mWperGHz'][degree] * baud * 1e-9)
        if degree in p.get('per_degree_psd_out_mWperSlotWidth', {}):
            return db(p['per_degree_psd_out_mWperSlotWidth'][degree] * slot * 1e-9)
        pols = ('target_pch_out_db', 'target_psd_out_mWperGHz', 'target_out_mWperSlotWidth')
        src = p if any(k in p for k in pols) else self.roadm_lib[e.get('type_variety', 'default')]
        if src.get(pols[0]) is not None:
            return src[pols[0]]
        if src.get(pols[1]) is not None:
            return db(src[pols[1]] * baud * 1e-9)
        return db(src[pols[2]] * slot * 1e-9)

    def chain_loss(self, node):
        """Loss of the fibre/fused chain that contains `node` (fibre budget at the reference frequency)."""
        if not isinstance(node, (Fiber, Fused)):
            return 0.0, False
        chain = [node]
        cur = node
        while True:
            pr = next(iter(self.net.predecessors(cur)))
            if isinstance(pr, (Fiber, Fused)) and (isinstance(pr, Fused) or isinstance(cur, Fused)):
                chain.insert(0, pr)
                cur = pr
            else:
                break
        cur = node
        while True:
            nx = next(iter(self.net.successors(cur)))
            if isinstance(nx, (Fiber, Fused)) and (isinstance(nx, Fused) or isinstance(cur, Fused)):
                chain.append(nx)
                cur = nx
            else:
                break
        loss = 0.0
        raman = False
        for c in chain:
            if isinstance(c, Fused):
                loss += c.params.loss
            else:
                p = c.params
                lumped = sum(x['loss'] for x in p.lumped_losses) if len(p.lumped_losses) else 0.0
                loss += float(np.atleast_1d(p.loss_coef)[0]) * p.length + p.con_in + p.con_out + p.att_in + lumped
                raman = raman or isinstance(c, RamanFiber)
        return loss, raman

    def rule_offset(self, next_node):
        """(offset prescribed by the documented rule for the span that follows, tie?)"""
        if isinstance(next_node, Roadm):
            return 0.0, False
        lo, hi, step = self.span['delta_power_range_db']
        slope = self.span.get('power_slope', 0.3)
        ref = self.span.get('span_loss_ref', 20.0)
        loss, _ = self.chain_loss(next_node)
        v, tie = round_step((loss - ref) * slope, step)
        return min(max(v, lo), hi), tie

    # -- the walk ---------------------------------------------------------------------------------------------
    def walk(self):
        ctx = self.ctx
        starts = [n for n in self.net.nodes() if isinstance(n, (Roadm, Transceiver))]
        for start in starts:
            for first in self.net.successors(start):
                if isinstance(first, Transceiver):
                    continue
                oms = []
                cur = first
                while not isinstance(cur, (Roadm, Transceiver)):
                    oms.append(cur)
                    cur = next(iter(self.net.successors(cur)))
                end = cur
                if any(isinstance(x, Multiband_amplifier) for x in oms):
                    ctx.count('multiband_oms_skipped')
                    continue
                if any(isinstance(x, RamanFiber) for x in oms):
                    ctx.count('raman_oms_skipped')
                    continue
                self.walk_oms(start, oms, end)

    def walk_oms(self, start, oms, end):
        ctx = self.ctx
        if isinstance(start, Roadm):
            p_out = self.roadm_ref_target(start.uid, oms[0].uid)
        else:
            p_out = self.si.get('tx_power_dbm') if self.si.get('tx_power_dbm') is not None else self.pref
        prev_dp, prev_voa = p_out - self.pref, 0.0
        n_ref = self.ref_nch() if self.si.get('use_si_channel_count_for_design', False) else \
            nch(self.si['f_min'], self.si['f_max'], self.si['spacing'])
        pref_total = self.pref + db(n_ref)
        amps = 0
        for i, node in enumerate(oms):
            if not isinstance(node, Edfa):
                continue
            amps += 1
            prev_node = oms[i - 1] if i else start
            next_node = oms[i + 1] if i + 1 < len(oms) else end
            o = self.orig.get(node.uid, {})
            op = o.get('operational', {}) or {}
            user_variety = bool(o.get('type_variety'))
            user_dp, user_gain, user_voa = op.get('delta_p'), op.get('gain_target'), op.get('out_voa')
            in_voa = op.get('in_voa') or 0.0
            loss, _ = self.chain_loss(prev_node)
            ctx.count('amplifiers_walked')
            eqa = self.eq['Edfa'][node.params.type_variety]
            voa = node.out_voa
            dp = node._delta_p
            auto_voa = user_voa is None and self.power_mode and bool(getattr(eqa, 'out_voa_auto', False))
            # I1: gain = loss since the previous amplifier + change of target (+ own input VOA)
            exp_gain = loss + dp - (prev_dp - prev_voa) + in_voa
            ctx.count('i1_checks')
            ctx.maxstat('i1_gain_dev_db', abs(node.effective_gain - exp_gain))
            if abs(node.effective_gain - exp_gain) > 1e-9:
                mech = None
                ff = self.first_fibre_of_chain(prev_node)
                if ff is not None and (self.orig.get(ff.uid.split('_(')[0], {}).get('params', {}).get('att_in') or 0) > 0 \
                        and abs((node.effective_gain - exp_gain) -
                                self.orig[ff.uid.split('_(')[0]]['params']['att_in']) < 1e-9:
                    mech = 'padded-span-loss-counts-user-att-in-twice'
                ctx.violation('I1-gain-budget', f'{node.uid}: gain {node.effective_gain:.6f} dB; loss since previous '
                              f'amplifier {loss:.6f} + offset {dp:.4f} - (previous offset {prev_dp:.4f} - previous VOA '
                              f'{prev_voa}) + input VOA {in_voa} = {exp_gain:.6f}', {'oms_start': start.uid},
                              mechanism=mech)
            if self.power_mode and node.delta_p is not None and abs(node.delta_p - dp) > 1e-12:
                ctx.violation('I1-offset-record', f'{node.uid}: delta_p {node.delta_p} != internal design offset {dp}')
            # I3 / I2
            p_max = eqa.p_max
            if not self.power_mode and user_gain is not None and not user_variety:
                # the type is chosen by auto-design: how far an operator gain that no permitted model can deliver is
                # reduced is the selection's rule (judged by C10: capability, extended gain, power reduction)
                ctx.skip('operator-gain-with-automatic-type')
            elif not self.power_mode and user_gain is not None:
                # total power the operator's gain would deliver: what enters the amplifier, minus its input VOA, plus gain
                pout = pref_total + prev_dp - loss - prev_voa - in_voa + user_gain
                exp = user_gain + min(0.0, p_max - pout)
                ctx.count('i3_checks')
                if exp == user_gain:
                    ctx.count('operator_gain_kept')
                else:
                    ctx.count('power_reductions_seen')
                if abs(node.effective_gain - exp) > 1e-9:
                    ctx.violation('I3-operator-gain', f'{node.uid}: operator gain {user_gain} dB became '
                                  f'{node.effective_gain:.6f} dB (expected {exp:.6f}: kept unless total power '
                                  f'{pout:.3f} dBm exceeds p_max {p_max}; input VOA {in_voa} dB)',
                                  # witness predicate of the listed finding: the gain is the one obtained when the
                                  # output power is estimated without the input VOA
                                  mechanism='gain-mode-saturation-test-ignores-input-voa'
                                  if in_voa and abs(node.effective_gain -
                                                    (user_gain + min(0.0, p_max - (pout + in_voa)))) < 1e-9 else None)
            else:
                base_voa = user_voa if user_voa else 0.0
                if user_dp is not None:
                    dp0, tie = user_dp, False
                    kind = 'operator'
                else:
                    r, tie = self.rule_offset(next_node)
                    dp0 = r + base_voa
                    kind = 'rule'
                if tie:
                    ctx.skip('offset-on-rounding-tie')
                else:
                    ctx.count('i2_rule_checks' if kind == 'rule' else 'i2_operator_checks')
                    gain0 = loss + dp0 - (prev_dp - prev_voa) + in_voa
                    if user_variety:
                        limit = p_max - pref_total
                    else:
                        ext = self.span.get('target_extended_gain', 2.5)
                        pin = pref_total + dp0 - gain0
                        limit = min(pin + eqa.gain_flatmax + ext, p_max) - pref_total
                    exp_dp = min(dp0, limit)
                    if exp_dp < dp0:
                        ctx.count('power_reductions_seen')
                    judged = True
                    if auto_voa:
                        # the design chooses the output VOA: the headroom to p_max / flat-max gain, rounded to the VOA
                        # step, minus the margin; offset and gain are raised by it so that the power after the VOA
                        # is the rule value
                        vstep, vmargin = self.span.get('voa_step', 0.5), self.span.get('voa_margin', 1)
                        gain_base = loss + exp_dp - (prev_dp - prev_voa) + in_voa
                        head = min(p_max - (pref_total + dp0), eqa.gain_flatmax - gain_base)
                        hv, vtie = round_step(head, vstep)
                        dstep = self.span['delta_power_range_db'][2]
                        if vtie or abs(round(vstep, 1) - vstep) > 1e-12 or \
                                (kind == 'rule' and abs(round(dstep, 1) - dstep) > 1e-12):
                            # (steps that are not multiples of 0.1 are coarsened: listed finding, judged on the
                            # amplifiers without automatic VOA)
                            ctx.skip('automatic-voa-on-rounding-tie-or-coarsened-step')
                            judged = False
                        else:
                            if hv > head + 1e-9:
                                # rounded to the step, but never above the headroom: the amplifier must not be designed
                                # above its maximum output power (or flat-max gain) whatever the margin is
                                hv -= vstep
                            voa_exp = max(hv - vmargin, 0.0)
                            exp_dp = exp_dp + voa_exp
                            ctx.count('i2_auto_voa_checks')
                            if voa_exp > 0:
                                ctx.count('auto_voa_positive')
                            if abs(voa - voa_exp) > 1e-9:
                                ctx.violation('I2-auto-voa', f'{node.uid}: automatic output VOA {voa} dB, expected '
                                              f'{voa_exp:.4f} (headroom {head:.4f}, step {vstep}, margin {vmargin})',
                                              {'variety': node.params.type_variety})
                                judged = False
                    if not judged:
                        pass
                    elif abs(dp - exp_dp) > 1e-9:
                        lo, hi, step = self.span['delta_power_range_db']
                        mech = None
                        if kind == 'rule' and abs(round(step, 1) - step) > 1e-12 and round(step, 1) >= 0.01:
                            # witness predicate of the listed finding: the value is the rule rounded on the grid of
                            # the step rounded to one decimal
                            st = round(step, 1)
                            x = (self.chain_loss(next_node)[0] - self.span.get('span_loss_ref', 20.0)) * \
                                self.span.get('power_slope', 0.3)
                            v = min(max(round(round(x / st) * st, 1), lo), hi) + base_voa
                            if abs(dp - min(v, limit)) < 1e-9:      # the p_max / extended-gain limit does not depend on the offset
                                mech = 'offset-step-coarsened-to-one-decimal'
                        ctx.violation('I2-power-rule', f'{node.uid}: offset {dp:.6f} dB; {kind} value {dp0:.6f} '
                                      f'(next span loss {self.chain_loss(next_node)[0]:.4f} dB, range {[lo, hi, step]}), '
                                      f'limit from p_max/extended gain {limit:.6f} -> expected {exp_dp:.6f}',
                                      {'variety': node.params.type_variety, 'user_variety': user_variety},
                                      mechanism=mech)
                    if user_voa is not None and abs(voa - user_voa) > 1e-12:
                        ctx.violation('I2-user-voa', f'{node.uid}: operator output VOA {user_voa} became {voa}')
            prev_dp = dp if not auto_voa else dp - voa
            prev_voa = voa if not auto_voa else 0.0
        if amps >= 2:
            ctx.nontrivial(('oms', start.uid, [x.uid for x in oms], P.digest(self.tj), P.digest(self.ej['Span'])))

    def first_fibre_of_chain(self, node):
        if not isinstance(node, (Fiber, Fused)):
            return None
        cur = node
        while True:
            pr = next(iter(self.net.predecessors(cur)))
            if isinstance(pr, (Fiber, Fused)) and (isinstance(pr, Fused) or isinstance(cur, Fused)):
                cur = pr
            else:
                break
        return cur if isinstance(cur, Fiber) else None


def i4_propagate(ctx, wk):
    """Design comb along every ROADM-to-ROADM hop: signal power at amplifier / ROADM outputs."""
    eq, net = wk.eq, wk.net
    si = wk.si
    adj = []
    for n in net.nodes():
        if isinstance(n, Roadm):
            for first in net.successors(n):
                if isinstance(first, Transceiver):
                    continue
                cur, els = first, []
                while not isinstance(cur, (Roadm, Transceiver)):
                    els.append(cur)
                    cur = next(iter(net.successors(cur)))
                if isinstance(cur, Roadm) and not any(isinstance(x, (Multiband_amplifier, RamanFiber)) for x in els):
                    adj.append((n, els, cur))
    ctx.rng.shuffle(adj)
    for a, els, b in adj[:4]:
        ta = next((t for t in net.predecessors(a) if isinstance(t, Transceiver)), None)
        tb = next((t for t in net.successors(b) if isinstance(t, Transceiver)), None)
        if ta is None or tb is None:
            continue
        path = [ta, a] + els + [b, tb]
        req = W.make_request(eq, ta.uid, tb.uid)
        try:
            p, out, events, _ = W.propagate_copy(path, req, eq)
        except W.NoChannelInBand:
            continue
        flat_so_far = True
        for e in events:
            if e['depth'] or e['after'] is None:
                continue
            aft = e['after']
            sig_lin = aft.pch * aft.sr
            sig = 10 * np.log10(sig_lin * 1e3)
            noise_share = 10 * np.log10(1 / aft.sr)
            el = e['el']
            if e['type'] == 'Edfa':
                flat = np.ptp(np.atleast_1d(el.params.gain_ripple)) == 0 and not el.tilt_target
                flat_so_far = flat_so_far and flat
                exp = wk.pref + el._delta_p - el.out_voa
                ctx.count('i4_amp_checks')
                if flat_so_far:
                    # every channel individually
                    tol = 1e-6
                    hi, lo = sig.max(), sig.min()
                else:
                    # tilt / ripple upstream or here: the design speaks about the total (mean) power
                    tol = 0.06
                    hi = lo = 10 * np.log10(sig_lin.mean() * 1e3)
                    ctx.count('i4_amp_checks_on_mean_power')
                ctx.maxstat('i4_amp_signal_below_design_db', float(exp - lo))
                if hi > exp + tol or lo < exp - noise_share.max() - tol:
                    ctx.violation('I4-amplifier-output', f'{el.uid}: propagated design comb leaves with signal '
                                  f'{lo:.6f}..{hi:.6f} dBm{"" if flat_so_far else " (mean)"}; design says reference '
                                  f'{wk.pref} + offset {el._delta_p:.4f} - VOA {el.out_voa} = {exp:.6f} (noise share '
                                  f'{noise_share.max():.2e} dB)', {'variety': el.params.type_variety,
                                                                   'gain': el.effective_gain})
            elif e['type'] == 'Roadm' and e['args']['degree'] != tb.uid:
                exp = wk.roadm_ref_target(el.uid, e['args']['degree'])
                ctx.count('i4_roadm_checks')
                if sig.max() > exp + 1e-6 or sig.min() < exp - noise_share.max() - 1e-6:
                    pin = 10 * np.log10(e['before'].pch * 1e3)
                    if pin.min() < exp - 1e-9:
                        ctx.skip('roadm-input-below-target')
                    else:
                        ctx.violation('I4-roadm-output', f'{el.uid} -> {e["args"]["degree"]}: signal {sig.min():.6f}..'
                                      f'{sig.max():.6f} dBm, target {exp:.6f}')
                flat_so_far = True


def build_inputs(rng, kind):
    ej = G.eqpt_json()
    G.vary_span_si(rng, ej)
    if kind == 'sat':
        # low p_max models and a high reference power so that power reductions occur
        for e in ej['Edfa']:
            if e['type_variety'] in ('std_medium_gain', 'std_low_gain', 'std_high_gain') and rng.random() < 0.7:
                e['p_max'] = G.pick(rng, [16, 17, 18])
        ej['SI'][0]['power_dbm'] = G.pick(rng, [1, 2, 3])
        ej['SI'][0]['use_si_channel_count_for_design'] = True
    if rng.random() < 0.3:
        # amplifier types whose output VOA is chosen by the design (no stock library entry has it)
        for e in ej['Edfa']:
            if e['type_variety'] in ('std_medium_gain', 'std_low_gain', 'std_high_gain') and rng.random() < 0.6:
                e['out_voa_auto'] = True
    if kind == 'p2p':
        return ej, G.gen_p2p(rng, lumped=rng.random() < 0.2)
    tj, _ = G.gen_topology(rng, max_sites=4, max_spans=3, per_degree=rng.random() < 0.4, lumped=rng.random() < 0.2,
                           chassis=rng.random() < 0.2,
                           amp_varieties=['std_medium_gain', 'std_low_gain', 'std_high_gain', 'std_fixed_gain',
                                          'high_detail_model_example', 'operator_model_example'], max_km=140)
    return ej, tj


def run_case(case, ctx):
    rng = ctx.rng
    ej, tj = build_inputs(rng, case['kind'])
    equipment = G.make_equipment(ej)
    network = G.make_network(tj, equipment)
    SimParams.set_params({})
    ctx.dump.update({'equipment_span': ej['Span'], 'equipment_si': ej['SI'], 'equipment_roadm': ej['Roadm'][:1],
                     'topology': tj})
    design_power = None
    if rng.random() < 0.3:
        # the design is made for another reference power than the SI one (what `--power` does)
        design_power = ej['SI'][0].get('power_dbm', 0) + G.pick(rng, [-2, -1, 1, 2, 0.5])
        if design_power == 0:
            # 0 is the command line's "not given" (default of --power): the SI value is used, by convention
            design_power = None
        else:
            ctx.count('designs_with_another_reference_power')
    G.design(equipment, network, **({'args_power': design_power} if design_power is not None else {}))
    wk = Walker(ctx, ej, tj, equipment, network, design_power_dbm=design_power)
    wk.walk()
    if not ctx.violations and design_power is None:
        i4_propagate(ctx, wk)
    ctx.cls(f'kind:{case["kind"]}', 'mode:power' if wk.power_mode else 'mode:gain',
            f'dpr:{ej["Span"][0]["delta_power_range_db"]}', f'eol:{ej["Span"][0].get("EOL", 0)}')
    if not ctx.samples:
        amps = [n for n in network.nodes() if isinstance(n, Edfa)][:4]
        ctx.sample({'span_config': ej['Span'][0], 'si': {k: ej['SI'][0].get(k) for k in ('power_dbm', 'tx_power_dbm',
                    'use_si_channel_count_for_design')},
                    'amplifiers': [{'uid': a.uid, 'variety': a.params.type_variety, 'gain': a.effective_gain,
                                    'offset': a._delta_p, 'voa': a.out_voa} for a in amps]})
    if not ctx.violations:
        ctx.dump.clear()
