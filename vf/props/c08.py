"""C08 - auto-design turns any well-formed topology into a complete line system.

Monitor: structural invariant checker evaluated on the network object right after designed_network() (the
quiescent point), against the input documents: completeness of every amplifier and fibre, padding of every
amplifier-to-amplifier span, equal splitting of over-long fibres, no bare junction left, one-in/one-out chains,
unique names, unchanged transceiver reachability and ROADM adjacency.
"""
import math
import traceback
from copy import deepcopy

import numpy as np

from gnpy.core.elements import Transceiver, Roadm, Fiber, RamanFiber, Edfa, Multiband_amplifier, Fused
from gnpy.core.parameters import SimParams
from gnpy.core.utils import convert_length

from vf import workload as W
from vf.gen import common as G
from vf.props import _prop_common as P

ID = 'C08'
RULE = ('generated meshes (2..6 ROADM sites, any degree, 1..4 spans per direction from 1 m to 420 km, fused junctions, '
        'user-placed amplifiers with full / partial / variety-list / no settings, user boosters and preamps, fused '
        'instead of booster, Raman spans, per-frequency loss, C+L networks with stated multiband varieties) x '
        'generated Span/SI configurations (power and gain mode, padding, EOL, connector defaults, max length, ROADM '
        'policies incl. 0 dBm). Each design is one observation of the whole network. Non-trivial: a topology in which '
        'auto-design had to insert at least one amplifier or split at least one fibre. Distinct: hash of (equipment '
        'Span/SI/Roadm, topology). Dedicated cases reproduce the listed known findings.'
        ' Also point-to-point lines without ROADMs and meshes with a transceiver attached to a ROADM through a line.')
ASSUMPTIONS = ['"well-formed" = what docs/json.rst allows and the loaders accept',
               'Raman fibres are generated below the maximum span length (splitting one is not described)',
               'a lumped loss that falls exactly between two split spans may be carried as input attenuation of the '
               'second one']
REQUIRED_COUNTERS = {'designs_after_extension': 20, 'designs_checked': 60, 'amplifiers_checked': 300, 'fibres_checked': 300, 'spans_checked': 200,
                     'split_fibres_checked': 10, 'inserted_amplifiers': 100}
CASE_TIMEOUT = {'quick': 200, 'thorough': 400}


def plan(tier, seed):
    n = 640 if tier == 'quick' else 8000
    kinds = ['mesh', 'mesh', 'long', 'mesh', 'raman', 'multiband', 'mesh', 'long', 'p2p', 'mesh']
    cases = [{'idx': i, 'kind': kinds[i % len(kinds)]} for i in range(n)]
    k0 = len(cases)
    for j, kf in enumerate(['kf-raman-upstream-amp', 'kf-split-lumped', 'kf-multiband-bare', 'kf-raman-upstream-amp',
                            'kf-split-lumped', 'kf-multiband-bare', 'kf-fused-before-amp', 'kf-fused-before-amp']):
        cases.append({'idx': k0 + j, 'kind': kf})
    return cases


# ------------------------------------------------------------------------------------------------------------

def graph_of(tj):
    succ, pred = {}, {}
    for c in tj['connections']:
        succ.setdefault(c['from_node'], []).append(c['to_node'])
        pred.setdefault(c['to_node'], []).append(c['from_node'])
    return succ, pred


def roadm_adjacency_json(tj):
    typ = {e['uid']: e['type'] for e in tj['elements']}
    succ, _ = graph_of(tj)
    adj = set()
    for e in tj['elements']:
        if e['type'] in ('Roadm', 'Transceiver'):
            for nx in succ.get(e['uid'], []):
                cur, guard = nx, 0
                while typ[cur] not in ('Roadm', 'Transceiver') and guard < 1000:
                    cur = succ[cur][0]
                    guard += 1
                adj.add((e['uid'], cur))
    return adj


def roadm_adjacency_net(network):
    adj = set()
    for n in network.nodes():
        if isinstance(n, (Roadm, Transceiver)):
            for nx in network.successors(n):
                cur, guard = nx, 0
                while not isinstance(cur, (Roadm, Transceiver)) and guard < 5000:
                    s = list(network.successors(cur))
                    if len(s) != 1:
                        return None
                    cur = s[0]
                    guard += 1
                adj.add((n.uid, cur.uid))
    return adj


def reach(adj):
    nodes = {a for a, _ in adj} | {b for _, b in adj}
    out = {}
    nxt = {}
    for a, b in adj:
        nxt.setdefault(a, set()).add(b)
    for s in nodes:
        if not s.startswith('trx'):
            continue
        seen, todo = {s}, [s]
        while todo:
            x = todo.pop()
            for y in nxt.get(x, ()):
                if y not in seen:
                    seen.add(y)
                    todo.append(y)
        out[s] = frozenset(t for t in seen if t.startswith('trx') and t != s)
    return out


def check_design(ctx, ej, tj, equipment, network, redesign=False):
    span = ej['Span'][0]
    power_mode = span.get('power_mode', True)
    padding = span.get('padding', 10)
    max_len = int(convert_length(span.get('max_length', 150), span.get('length_units', 'km')))
    lib = equipment['Edfa']
    ctx.count('designs_checked')
    nodes = list(network.nodes())
    uids = [n.uid for n in nodes]
    if len(set(uids)) != len(uids):
        dup = sorted({u for u in uids if uids.count(u) > 1})[:4]
        ctx.violation('duplicate-uid', f'element names are not unique after design: {dup}')
    orig = {e['uid']: e for e in tj['elements']}
    inserted = 0
    # ---- amplifiers
    for n in nodes:
        if isinstance(n, Edfa):
            amps = [(n.uid, n)]
        elif isinstance(n, Multiband_amplifier):
            amps = [(f'{n.uid}[{b}]', a) for b, a in n.amplifiers.items()]
            bands = n.params.bands
            if len(n.amplifiers) == 0:
                ctx.violation('multiband-empty', f'{n.uid}: multiband amplifier without per-band amplifiers')
            if not n.type_variety or n.type_variety not in lib or lib[n.type_variety].type_def != 'multi_band':
                ctx.violation('amplifier-undesigned', f'{n.uid}: multiband variety {n.type_variety!r} not in library')
        else:
            continue
        if n.uid not in orig:
            inserted += 1
        for name, a in amps:
            ctx.count('amplifiers_checked')
            tv = a.params.type_variety
            bad = None
            if not tv or tv not in lib or lib[tv].type_def == 'multi_band':
                bad = f'no concrete model (type_variety {tv!r})'
            elif a.effective_gain is None or not math.isfinite(a.effective_gain):
                bad = f'gain {a.effective_gain!r}'
            elif a.out_voa is None or not math.isfinite(a.out_voa):
                bad = f'output VOA {a.out_voa!r}'
            elif power_mode and (a.delta_p is None or not math.isfinite(a.delta_p)):
                bad = f'power target {a.delta_p!r} in power mode'
            elif a.tilt_target is None:
                bad = 'tilt target None'
            if bad:
                ctx.violation('amplifier-undesigned', f'{name}: {bad} after auto-design', {'uid': n.uid})
    ctx.count('inserted_amplifiers', inserted)
    # ---- fibres
    fibres = [n for n in nodes if isinstance(n, Fiber)]
    for f in fibres:
        ctx.count('fibres_checked')
        if f.params.con_in is None or f.params.con_out is None or f.params.att_in is None:
            ctx.violation('fibre-incomplete', f'{f.uid}: connector loss missing after design '
                          f'({f.params.con_in}, {f.params.con_out})')
    # ---- degree / adjacency of line elements
    for n in nodes:
        if isinstance(n, (Roadm, Transceiver)):
            continue
        ins, outs = list(network.predecessors(n)), list(network.successors(n))
        if len(ins) != 1 or len(outs) != 1:
            ctx.violation('chain-broken', f'{type(n).__name__} {n.uid}: in-degree {len(ins)}, out-degree {len(outs)}')
            continue
        nx = outs[0]
        if isinstance(n, Fiber) and isinstance(nx, (Fiber, Roadm)):
            ctx.violation('bare-junction', f'{n.uid} -> {nx.uid}: fibre followed by {type(nx).__name__} without '
                          'amplifier or fused element')
    for n in nodes:
        if isinstance(n, Roadm):
            for nx in network.successors(n):
                if isinstance(nx, Fiber):
                    ctx.violation('bare-junction', f'{n.uid} -> {nx.uid}: ROADM followed by a fibre without amplifier')
    # ---- spans between amplifiers: padding
    for n in nodes:
        if not isinstance(n, (Edfa, Multiband_amplifier)):
            continue
        chain, cur, guard = [], next(iter(network.successors(n)), None), 0
        while cur is not None and isinstance(cur, (Fiber, Fused)) and guard < 1000:
            chain.append(cur)
            cur = next(iter(network.successors(cur)), None)
            guard += 1
        if not chain or not isinstance(cur, (Edfa, Multiband_amplifier)):
            continue
        if not any(isinstance(c, Fiber) for c in chain):
            continue
        ctx.count('spans_checked')
        if any(isinstance(c, RamanFiber) for c in chain):
            ctx.cls('span:raman-exempt')
            continue
        loss = sum(float(c.loss) for c in chain)
        ctx.maxstat('padding_deficit_db', padding - loss)
        if loss < padding - 1e-9:
            ctx.violation('span-below-padding', f'span {[c.uid for c in chain]} between {n.uid} and {cur.uid} has '
                          f'{loss:.6f} dB < padding {padding} dB', {'span': [c.uid for c in chain]},
                          mechanism='span-ending-with-fused-not-padded' if isinstance(chain[-1], Fused) else None)
    # ---- splitting of over-long fibres
    byuid = {n.uid: n for n in nodes}
    for e in tj['elements']:
        if e['type'] not in ('Fiber', 'RamanFiber'):
            continue
        L = convert_length(e['params']['length'], e['params'].get('length_units', 'km'))
        parts = [n for n in fibres if n.uid.startswith(e['uid'] + '_(')]
        if e['uid'] in byuid:
            if parts:
                ctx.violation('split-and-kept', f'{e["uid"]}: both the original fibre and split spans exist')
            if L > max_len and e['type'] == 'Fiber':
                ctx.violation('long-fibre-not-split', f'{e["uid"]}: {L} m >= max length {max_len} m but not split')
            elif abs(byuid[e['uid']].params.length - L) > 1e-6:
                ctx.violation('fibre-length-changed', f'{e["uid"]}: length changed by design')
            continue
        if not parts:
            ctx.violation('fibre-lost', f'{e["uid"]}: fibre disappeared during design')
            continue
        ctx.count('split_fibres_checked')
        n_parts = len(parts)
        lens = [p.params.length for p in parts]
        if L < max_len:
            ctx.violation('short-fibre-split', f'{e["uid"]}: {L} m < max length but split into {n_parts}')
        if abs(sum(lens) - L) > 1e-6 or max(lens) - min(lens) > 1e-6:
            ctx.violation('split-lengths', f'{e["uid"]}: split lengths {lens[:4]} do not add up to {L} / are not equal')
        if max(lens) > max_len + 1e-6:
            ctx.violation('split-still-too-long', f'{e["uid"]}: split spans of {max(lens)} m exceed max length {max_len}')
        names = sorted(p.uid for p in parts)
        if names != sorted(f'{e["uid"]}_({k + 1}/{n_parts})' for k in range(n_parts)):
            ctx.violation('split-names', f'{e["uid"]}: unexpected split names {names[:4]}')
        lc = e['params']['loss_coef']
        for p in parts:
            got = np.atleast_1d(p.params.loss_coef) * 1e3
            exp = np.atleast_1d(lc['value'] if isinstance(lc, dict) else lc)
            if got.shape != exp.shape or np.any(np.abs(got - exp) > 1e-12) or p.type_variety != e.get('type_variety'):
                ctx.violation('split-loss', f'{p.uid}: loss coefficient / type differs from the original fibre',
                              {'got': got.tolist(), 'expected': exp.tolist()})
                break
        # input attenuation: the user's value stays at the input of the first part only (the parts together have the
        # original loss); a lumped loss that sits exactly between two parts may be carried as input attenuation of the
        # second one; anything beyond that must be padding, i.e. bring that part exactly to the padding loss
        att0 = e['params'].get('att_in') or 0.0
        ordered = sorted(parts, key=lambda p: int(p.uid.rsplit('_(', 1)[1].split('/')[0]))
        Lkm0 = lens[0] * 1e-3
        moved = {}
        for x in e['params'].get('lumped_losses') or []:
            k = min(int(float(x['position']) // Lkm0 + 1e-9), n_parts - 1)
            if float(x['position']) - k * Lkm0 < 1e-6:
                moved[k] = moved.get(k, 0.0) + x['loss']
        ctx.count('split_att_in_checks')
        # (on a second design of the same object the padding of the first design is input data, and EOL is added to it:
        # that repetition is C17's subject, listed there)
        for k, p in enumerate([] if redesign else ordered):
            extra = p.params.att_in - (att0 if k == 0 else 0.0) - moved.get(k, 0.0)
            # (the padding is a property of the amplifier-to-amplifier span: fused elements next to the part count)
            span = [p]
            for step in (network.predecessors, network.successors):
                cur = next(iter(step(p)), None)
                while isinstance(cur, (Fiber, Fused)):
                    span.append(cur)
                    cur = next(iter(step(cur)), None)
            span_loss = sum(float(c.loss) for c in span)
            if extra < -1e-9 or (extra > 1e-9 and abs(span_loss - padding) > 1e-6):
                ctx.violation('split-att-in', f'{e["uid"]}: part {k + 1}/{n_parts} has input attenuation '
                              f'{p.params.att_in} dB; the original fibre had {att0} dB at its input (lumped losses on '
                              f'part boundaries: {moved}); part loss {p.loss:.4f} dB, loss of its span {span_loss:.4f} dB, padding {padding} dB',
                              mechanism='split-fibre-att-in-replicated' if k > 0 and abs(extra - att0) < 1e-9 else None)
                break
        ll = e['params'].get('lumped_losses') or []
        if ll:
            # every lumped loss is found once, at its original place: in the part that contains it, or - when it sits
            # exactly between two parts - as extra input attenuation of the second one (input attenuation may also
            # hold padding, which the span checks judge)
            att0 = e['params'].get('att_in') or 0.0
            ordered = sorted(parts, key=lambda p: int(p.uid.rsplit('_(', 1)[1].split('/')[0]))
            Lkm = lens[0] * 1e-3
            found = sorted((k, round(x['position'], 6), x['loss']) for k, p in enumerate(ordered)
                           for x in p.params.lumped_losses)
            want, at_input = [], {}
            for x in ll:
                k = min(int(float(x['position']) // Lkm + 1e-9), n_parts - 1)
                rel = float(x['position']) - k * Lkm
                if rel < 1e-6:
                    at_input[k] = at_input.get(k, 0.0) + x['loss']
                else:
                    want.append((k, round(rel, 6), x['loss']))
            ctx.count('split_lumped_checks')
            bad_input = [k for k, v in at_input.items() if ordered[k].params.att_in - att0 < v - 1e-9]
            if found != sorted(want) or bad_input:
                ctx.violation('split-lumped', f'{e["uid"]}: lumped losses (part, position km, dB) after the split '
                              f'{found[:6]}, expected {sorted(want)[:6]} and at the input of parts {at_input}',
                              mechanism='split-fibre-lumped-losses')
    # ---- reachability and ROADM-level adjacency
    a0 = roadm_adjacency_json(tj)
    a1 = roadm_adjacency_net(network)
    if a1 is None or a0 != a1:
        ctx.violation('adjacency-changed', 'ROADM/transceiver-level adjacency differs from the input topology',
                      {'lost': sorted(a0 - (a1 or set()))[:4], 'new': sorted((a1 or set()) - a0)[:4]})
    elif reach(a0) != reach(a1):
        ctx.violation('reachability-changed', 'transceiver-to-transceiver reachability changed')
    return inserted


# ------------------------------------------------------------------------------------------------------------

def build_inputs(rng, kind):
    sim = None
    if kind == 'multiband':
        ej = G.eqpt_json('eqpt_config_multiband.json')
        sp = ej['Span'][0]
        sp['padding'] = G.pick(rng, [10, 8, 11])
        sp['EOL'] = G.pick(rng, [0, 0.5])

        def rp(r, s):
            return {'design_bands': deepcopy(P.MB_BANDS)}
        tj, _ = G.gen_topology(rng, max_sites=4, max_spans=3, user_amps=False, fused=False, roadm_params=rp,
                               max_km=130, long_fibers=rng.random() < 0.3)
        P.multibandify(tj, rng)
        return ej, tj, sim
    ej = G.eqpt_json()
    G.vary_span_si(rng, ej)
    if rng.random() < 0.15:
        r = ej['Roadm'][0]
        for k in ('target_pch_out_db', 'target_psd_out_mWperGHz', 'target_out_mWperSlotWidth'):
            r.pop(k, None)
        r['target_pch_out_db'] = 0
    if kind == 'raman':
        tj = P.raman_topology(rng)
        sim = {'raman_params': {'flag': True, 'result_spatial_resolution': 10e3, 'solver_spatial_resolution': 100}}
        return ej, tj, sim
    if kind == 'p2p':
        tj = G.gen_p2p(rng, long_fibers=rng.random() < 0.3, lumped=rng.random() < 0.3, per_freq_loss=rng.random() < 0.3)
        return ej, tj, sim
    tj, _ = G.gen_topology(rng, max_sites=6 if kind == 'mesh' else 4, max_spans=4 if kind == 'long' else 3,
                           long_fibers=(kind == 'long'), per_degree=rng.random() < 0.4,
                           per_freq_loss=rng.random() < 0.4, lumped=rng.random() < 0.3,
                           no_booster_fused=rng.random() < 0.3, max_km=148, chassis=rng.random() < 0.2)
    if rng.random() < 0.2:
        # very short fibres (metres)
        for e in tj['elements']:
            if e['type'] == 'Fiber' and rng.random() < 0.3 and not e['params'].get('lumped_losses'):
                e['params']['length'] = G.pick(rng, [0.001, 0.05, 0.9])
    return ej, tj, sim


def extend_network(rng, tj, equipment, network):
    """Adds a new site X (ROADM + transceiver) behind bare fibres of an existing ROADM to the network *object*; returns
    the topology description of the extended network."""
    roadms = [e['uid'] for e in tj['elements'] if e['type'] == 'Roadm']
    r = G.pick(rng, roadms)
    site = r.replace('roadm ', '')

    def meta(u):
        return {'location': {'city': u, 'region': '', 'latitude': 0, 'longitude': 0}}

    def fib(uid):
        return {'uid': uid, 'type': 'Fiber', 'type_variety': 'SSMF', 'metadata': meta(uid),
                'params': {'length': G.pick(rng, [35, 80, 120, 147, 163, 230, 310]), 'length_units': 'km',
                           'loss_coef': 0.2, 'con_in': None, 'con_out': None}}
    els = [{'uid': 'trx X', 'type': 'Transceiver', 'metadata': meta('trx X')},
           {'uid': 'roadm X', 'type': 'Roadm', 'metadata': meta('roadm X')}]
    out_chain, in_chain = [r], ['roadm X']
    for chain, a, b in ((out_chain, site, 'X'), (in_chain, 'X', site)):
        if rng.random() < 0.3:
            f = {'uid': f'fused ({a} → {b})', 'type': 'Fused', 'params': {'loss': 0.5}, 'metadata': meta('f')}
            els.append(f)
            chain.append(f['uid'])
        for k in range(rng.randint(1, 2)):
            f = fib(f'fiber ({a} → {b})-x{k}')
            els.append(f)
            chain.append(f['uid'])
    out_chain.append('roadm X')
    in_chain.append(r)
    cxs = [('trx X', 'roadm X'), ('roadm X', 'trx X')] + list(zip(out_chain[:-1], out_chain[1:])) + \
        list(zip(in_chain[:-1], in_chain[1:]))
    ext = {'elements': els, 'connections': [{'from_node': a, 'to_node': b} for a, b in cxs]}
    stub = {'elements': [{'uid': r, 'type': 'Roadm', 'metadata': meta(r)}] + deepcopy(els),
            'connections': ext['connections']}
    extra = G.make_network(stub, equipment)
    existing = {n.uid: n for n in network.nodes()}
    new_nodes = {n.uid: n for n in extra.nodes() if n.uid not in existing}
    nodes = {**existing, **new_nodes}
    network.add_nodes_from(new_nodes.values())
    for a, b, data in extra.edges(data=True):
        network.add_edge(nodes[a.uid], nodes[b.uid], **data)
    return {'elements': tj['elements'] + els, 'connections': tj['connections'] + ext['connections']}


def run_known(case, ctx):
    """Dedicated inputs for the listed findings (see known_findings.json)."""
    rng = ctx.rng
    kind = case['kind']
    ej = G.eqpt_json()
    sim = None
    if kind == 'kf-raman-upstream-amp':
        tj = P.raman_topology(rng)
        for e in tj['elements']:
            if e['type'] == 'Edfa':
                e['operational']['delta_p'] = None       # amplifier left to auto-design right before a Raman span
        sim = {'raman_params': {'flag': True, 'result_spatial_resolution': 10e3, 'solver_spatial_resolution': 100}}
    elif kind == 'kf-split-lumped':
        tj, _ = G.gen_topology(rng, n_sites=2, max_spans=1, user_amps=False, fused=False)
        for e in tj['elements']:
            if e['type'] == 'Fiber':
                e['params']['length'] = 260.0
                e['params']['lumped_losses'] = [{'position': G.pick(rng, [20.0, 50.0, 130.0]), 'loss': 1.0}]
    elif kind == 'kf-fused-before-amp':
        # short fibre + fused element directly in front of a user-placed amplifier
        tj, _ = G.gen_topology(rng, n_sites=2, max_spans=1, user_amps=False, fused=False)
        f = next(e for e in tj['elements'] if e['type'] == 'Fiber')
        f['params']['length'] = G.pick(rng, [5.0, 10.0, 20.0])
        f['params']['att_in'] = 0
        dst = next(c for c in tj['connections'] if c['from_node'] == f['uid'])
        tj['elements'] += [{'uid': 'vf fused', 'type': 'Fused', 'params': {'loss': 0.5}, 'metadata': G._loc(0, 0)},
                           G.gen_edfa(rng, 'vf amp', settings='variety', varieties=['std_low_gain']),
                           G.gen_fiber(rng, 'vf fibre', length=80.0)]
        tj['elements'][-2].pop('_settings', None)
        roadm = dst['to_node']
        tj['connections'].remove(dst)
        for a, b in ((f['uid'], 'vf fused'), ('vf fused', 'vf amp'), ('vf amp', 'vf fibre'), ('vf fibre', roadm)):
            tj['connections'].append({'from_node': a, 'to_node': b})
    else:
        ej = G.eqpt_json('eqpt_config_multiband.json')

        def rp(r, s):
            return {'design_bands': deepcopy(P.MB_BANDS)}
        tj, _ = G.gen_topology(rng, n_sites=2, max_spans=1, user_amps=False, fused=False, roadm_params=rp)
    equipment = G.make_equipment(ej)
    network = G.make_network(tj, equipment)
    G.reset_sim_params(sim)
    ctx.nontrivial((kind, P.digest(tj)))
    try:
        G.design(equipment, network)
    except Exception as e:  # noqa
        tbs = ''.join(traceback.format_exception(type(e), e, e.__traceback__))
        mech = classify_exception(e, tbs, ctx, tj=tj)
        ctx.violation('design-failed', f'{kind}: {type(e).__name__}: {str(e)[:200]}', {'traceback': tbs[-1500:]},
                      mechanism=mech)
        G.reset_sim_params(None)
        return
    G.reset_sim_params(None)
    check_design(ctx, ej, tj, equipment, network)


def classify_exception(e, tbs, ctx, tj=None):
    name = type(e).__name__
    if name == 'TypeError' and 'estimate_raman_gain' in tbs and 'dbm2watt' in tbs and 'target_power' in tbs:
        return 'raman-span-upstream-amp-without-operator-power'
    if name == 'NetworkTopologyError' and 'Lumped loss positions must be between 0 and the fiber length' in str(e) \
            and 'split_fiber' in tbs:
        return 'split-fibre-lumped-losses'
    if name == 'NetworkTopologyError' and 'inconsistent design multiband/ single band definition' in str(e):
        return 'multiband-bare-fibre-preamp-single-band'
    return None


def run_case(case, ctx):
    if case['kind'].startswith('kf-'):
        return run_known(case, ctx)
    rng = ctx.rng
    ej, tj, sim = build_inputs(rng, case['kind'])
    equipment = G.make_equipment(ej)
    network = G.make_network(tj, equipment)
    G.reset_sim_params(sim)
    ctx.dump.update({'equipment_span': ej['Span'], 'equipment_si': ej['SI'], 'equipment_roadm': ej['Roadm'][:1],
                     'topology': tj})
    try:
        G.design(equipment, network)
    finally:
        G.reset_sim_params(None)
    inserted = check_design(ctx, ej, tj, equipment, network)
    if case['kind'] in ('mesh', 'long', 'p2p') and rng.random() < 0.25 and \
            any(e['type'] == 'Roadm' for e in tj['elements']) and not any(v['mechanism'] is None for v in ctx.violations):
        # history: the designed network object is extended with a new site behind bare fibres (a what-if study) and
        # designed again: the extended topology is well formed, so the second design has to complete it
        tj2 = extend_network(rng, tj, equipment, network)
        ctx.dump['extension'] = {'elements': tj2['elements'][len(tj['elements']):],
                                 'connections': tj2['connections'][len(tj['connections']):]}
        try:
            G.design(equipment, network)
        finally:
            G.reset_sim_params(None)
        before = len(ctx.violations)
        check_design(ctx, ej, tj2, equipment, network, redesign=True)
        for v in ctx.violations[before:]:
            v['msg'] = '[second design after extending the designed network] ' + v['msg']
        ctx.count('designs_after_extension')
        ctx.cls('history:design-extend-design')
    n_split = sum(1 for n in network.nodes() if isinstance(n, Fiber) and '_(' in n.uid)
    ctx.cls(f'kind:{case["kind"]}', 'mode:power' if ej['Span'][0].get('power_mode', True) else 'mode:gain',
            f'eol:{ej["Span"][0].get("EOL", 0)}', 'split:yes' if n_split else 'split:no')
    if inserted or n_split:
        ctx.nontrivial((ej['Span'], ej['SI'], ej['Roadm'][0], P.digest(tj)))
    if not ctx.samples:
        ctx.sample({'kind': case['kind'], 'span_config': ej['Span'][0], 'elements_in': len(tj['elements']),
                    'elements_after_design': network.number_of_nodes(), 'amplifiers_inserted': inserted,
                    'fibres_from_splits': n_split})
    if not ctx.violations:
        ctx.dump.clear()
