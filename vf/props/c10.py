"""C10 - auto-selected amplifiers are allowed, capable and the quietest capable choice.

Monitor: every set_one_amplifier / select_edfa call made by auto-design is recorded (arguments and result); an
independent oracle recomputes the permitted set from the library and the topology documents (own variety list, else
adjacent ROADM restriction, else allowed-for-design; band coverage), the capability of every permitted model from
its data sheet, and the reference noise figure (vf.ref.amp), and judges the recorded choice.
"""
import math
from copy import deepcopy

import numpy as np

from gnpy.core import network as net_mod
from gnpy.core.elements import Roadm, Fiber, Edfa, Multiband_amplifier, Transceiver, Fused
from gnpy.core.exceptions import ConfigurationError
from gnpy.core.parameters import SimParams

from vf.gen import common as G, eqpt as GE
from vf.ref import amp as RA
from vf.props import _prop_common as P

ID = 'C10'
RULE = ('synthetic amplifier libraries (5..25 overlapping variable-gain / fixed-gain / advanced / dual-stage / '
        'Raman-flagged / narrow-band models with random allowed_for_design flags) merged with or replacing the stock '
        'models, restrictions at amplifier (variety list), ROADM (booster / preamp lists, library or topology level) '
        'and library level, generated meshes with spans from metres to 140 km. Every select_edfa call is one '
        'observation. Non-trivial: a selection among >=3 permitted models of which >=2 are capable. Distinct: hash of '
        '(permitted set, required gain, required power).')
ASSUMPTIONS = ['capability margins within 1e-9 dB of zero and NF ties (1e-9 dB) are not judged',
               'NF optimality judged with the reference NF model for gain-only models (variable, fixed, advanced, dual '
               'stage); OpenROADM models (NF depends on input power) only for membership and capability',
               'multiband auto-selection is exercised by dedicated cases (listed known finding)']
REQUIRED_COUNTERS = {'selections': 200, 'permitted_set_checks': 200, 'capability_checks': 200, 'nf_optimality_checks': 150,
                     'restricted_by_roadm': 10, 'restricted_by_variety_list': 10, 'raman_rule_checks': 5,
                     'selections_after_library_edit': 30, 'selection_vs_design_checks': 1000,
                     'multiband_preselection_checks': 50, 'multiband_bands_with_different_total_power': 30}
CASE_TIMEOUT = {'quick': 200, 'thorough': 400}

_CALLS = []
_installed = [False]


def install():
    if _installed[0]:
        return
    orig_set, orig_sel = net_mod.set_one_amplifier, net_mod.select_edfa

    def set_one_amplifier(node, prev_node, next_node, power_mode, prev_voa, prev_dp, pref_ch_db, pref_total_db, network,
                          restrictions, equipment, verbose, deviation_db=0.0, tilt_target=0.0):
        rec = {'kind': 'set', 'node': node, 'prev': prev_node, 'next': next_node, 'restrictions': list(restrictions),
               'variety_before': node.params.type_variety, 'select': None, 'pref_total_db': pref_total_db,
               'network': network}
        _CALLS.append(rec)
        _stack.append(rec)
        rec['out_voa_before'], rec['power_mode'] = node.out_voa, power_mode
        try:
            return orig_set(node, prev_node, next_node, power_mode, prev_voa, prev_dp, pref_ch_db, pref_total_db,
                            network, restrictions, equipment, verbose, deviation_db=deviation_db,
                            tilt_target=tilt_target)
        finally:
            _stack.pop()
            rec['variety_after'] = node.params.type_variety
            # designed state right after this call (the same amplifier may be designed again later)
            rec['after'] = {'offset': getattr(node, '_delta_p', None), 'gain': node.effective_gain, 'out_voa': node.out_voa}

    def select_edfa(raman_allowed, gain_target, power_target, edfa_eqpt, uid, target_extended_gain, verbose=True):
        rec = {'raman_allowed': bool(raman_allowed), 'gain_target': float(gain_target),
               'power_target': float(power_target), 'candidates': sorted(edfa_eqpt), 'uid': uid,
               'ext': target_extended_gain, 'result': None, 'error': None}
        if _stack:
            _stack[-1]['select'] = rec
        try:
            out = orig_sel(raman_allowed, gain_target, power_target, edfa_eqpt, uid, target_extended_gain, verbose)
            rec['result'] = out
            return out
        except Exception as e:  # noqa
            rec['error'] = f'{type(e).__name__}: {e}'
            raise
    net_mod.set_one_amplifier = set_one_amplifier
    net_mod.select_edfa = select_edfa
    _installed[0] = True


_stack = []


def plan(tier, seed):
    n = 1200 if tier == 'quick' else 16000
    cases = [{'idx': i, 'kind': ['synth', 'synth', 'mixed', 'synth', 'multiband'][i % 5]} for i in range(n)]
    cases += [{'idx': n, 'kind': 'kf-multiband-auto'}, {'idx': n + 1, 'kind': 'kf-multiband-auto'},
              {'idx': n + 2, 'kind': 'kf-multiband-crossed'}, {'idx': n + 3, 'kind': 'kf-multiband-crossed'}]
    return cases


# ------------------------------------------------------------------------------------------------------------

def build_inputs(rng, kind):
    ej = G.eqpt_json()
    G.vary_span_si(rng, ej, allow_eol=False)
    synth = GE.synth_library(rng, n=rng.randint(5, 22), kinds=('variable_gain', 'variable_gain', 'variable_gain',
                                                                 'fixed_gain', 'advanced_model'), dual=True)
    # some Raman-flagged dual stages and narrow-band models
    singles = [e for e in synth if e['type_def'] in ('variable_gain', 'fixed_gain')]
    if singles and rng.random() < 0.6:
        ej_raman = {'type_variety': 'syn_raman_pre', 'type_def': 'fixed_gain', 'gain_flatmax': 12, 'gain_min': 12,
                    'p_max': 21, 'nf0': -1, 'allowed_for_design': False}
        synth.append(ej_raman)
        boo = G.pick(rng, singles)
        synth.append({'type_variety': 'syn_hybrid', 'type_def': 'dual_stage', 'raman': True,
                      'gain_min': round(12 + boo['gain_min'], 1), 'preamp_variety': 'syn_raman_pre',
                      'booster_variety': boo['type_variety'], 'allowed_for_design': True})
    if rng.random() < 0.5:
        synth.append(GE.synth_variable_gain(rng, 'syn_narrow', f_min=192.0e12, f_max=196.2e12, allowed=True))
    if rng.random() < 0.5:
        # covers the lower edge of the design band but not the upper one
        synth.append(GE.synth_variable_gain(rng, 'syn_short', f_min=191.2e12, f_max=G.pick(rng, [194.0e12, 195.0e12]),
                                            allowed=True))
    if kind == 'synth':
        # replace the stock auto-design candidates by the synthetic ones
        for e in ej['Edfa']:
            e['allowed_for_design'] = False
    ej['Edfa'] += synth
    names = [e['type_variety'] for e in synth if e['type_variety'] not in ('syn_raman_pre',)]
    # ROADM restrictions at library level
    if rng.random() < 0.4:
        ej['Roadm'][0]['restrictions'] = {'preamp_variety_list': rng.sample(names, min(len(names), rng.randint(1, 4))),
                                          'booster_variety_list': rng.sample(names, min(len(names), rng.randint(1, 4)))}

    def rp(r, s):
        if r.random() < 0.3:
            return {'restrictions': {'preamp_variety_list': r.sample(names, min(len(names), r.randint(0, 3))),
                                     'booster_variety_list': r.sample(names, min(len(names), r.randint(0, 3)))}}
        return {}
    tj, _ = G.gen_topology(rng, max_sites=4, max_spans=3, roadm_params=rp, max_km=140, user_amps=True,
                           amp_varieties=names[:6] or None, per_freq_loss=rng.random() < 0.4)
    # make sure some ROADM-adjacent amplifiers are left to auto design, and short spans exist
    for e in tj['elements']:
        if e['type'] == 'Fiber' and rng.random() < 0.15:
            e['params']['length'] = G.pick(rng, [0.5, 3.0, 12.0, 25.0])
        if e['type'] == 'Fiber' and rng.random() < 0.2 and not isinstance(e['params']['loss_coef'], dict):
            e['params']['loss_coef'] = G.pick(rng, [0.26, 0.3])      # above the Raman loss limit
        elif e['type'] == 'Fiber' and isinstance(e['params']['loss_coef'], dict) and rng.random() < 0.5:
            # per-frequency loss straddling the Raman loss limit: above it somewhere, below it around the reference
            t = e['params']['loss_coef']
            order = sorted(range(len(t['frequency'])), key=lambda i: t['frequency'][i])
            for i, v in zip(order, G.pick(rng, [[0.30, 0.22, 0.20, 0.21], [0.24, 0.21, 0.2, 0.27], [0.2, 0.2, 0.21, 0.26]])):
                t['value'][i] = v
    return ej, tj


def perturbed_library(rng, ej):
    """Another library with the same model names: noise figures of the variable / fixed gain models moved by up to
    2 dB (kept acceptable to the loader), so that the quietest capable model is often another one."""
    from gnpy.core.science_utils import estimate_nf_model
    from gnpy.core.exceptions import EquipmentConfigError
    ej2 = deepcopy(ej)
    n = 0
    for e in ej2['Edfa']:
        if not e['type_variety'].startswith('syn'):
            continue
        if e.get('type_def') == 'variable_gain' and 'nf_min' in e:
            for _ in range(20):
                d = G.rnd(rng, -2, 2, 2)
                try:
                    estimate_nf_model(e['type_variety'], e['gain_min'], e['gain_flatmax'], round(e['nf_min'] + d, 2),
                                      round(e['nf_max'] + d, 2))
                except EquipmentConfigError:
                    continue
                e['nf_min'], e['nf_max'] = round(e['nf_min'] + d, 2), round(e['nf_max'] + d, 2)
                n += 1
                break
        elif e.get('type_def') == 'fixed_gain' and 'nf0' in e and e['nf0'] > 0:
            e['nf0'] = round(max(3.5, e['nf0'] + G.rnd(rng, -2, 2, 2)), 2)
            n += 1
    return ej2 if n else None


def lib_entries(ej):
    return {e['type_variety']: e for e in ej['Edfa']}


def model(ej, name):
    lib = lib_entries(ej)
    e = lib[name]
    adv = None
    if e.get('type_def') == 'advanced_model':
        from gnpy.tools.default_edfa_config import DEFAULT_EXTRA_CONFIG
        adv = DEFAULT_EXTRA_CONFIG[e['advanced_config_from_json']]
    return RA.AmpModel(e, lib, adv)


def band_of_entry(ej, e):
    if e.get('type_def') == 'dual_stage':
        return 191.275e12, 196.125e12
    if 'f_min' in e:
        return e['f_min'], e['f_max']
    if e.get('type_def') == 'advanced_model':
        from gnpy.tools.default_edfa_config import DEFAULT_EXTRA_CONFIG
        c = DEFAULT_EXTRA_CONFIG[e['advanced_config_from_json']]
        return c['f_min'], c['f_max']
    return 191.275e12, 196.125e12


def design_band(ej, tj, rec):
    """Design band of the OMS: the default band (SI) restricted to the bands of the amplifiers whose model the
    user stated on that OMS."""
    si = ej['SI'][0]
    lo, hi = si['f_min'], si['f_max']
    net = rec['network']
    orig = {e['uid']: e for e in tj['elements']}
    lib = lib_entries(ej)
    oms = []
    cur = rec['node']
    while not isinstance(cur, (Roadm, Transceiver)):
        oms.append(cur)
        cur = next(iter(net.predecessors(cur)))
    cur = next(iter(net.successors(rec['node'])))
    while not isinstance(cur, (Roadm, Transceiver)):
        oms.append(cur)
        cur = next(iter(net.successors(cur)))
    for el in oms:
        o = orig.get(el.uid)
        if o and o['type'] == 'Edfa' and o.get('type_variety'):
            b = band_of_entry(ej, lib[o['type_variety']])
            lo, hi = max(lo, b[0]), min(hi, b[1])
    return (lo, hi) if lo < hi else None


def permitted_set(ej, tj, rec, design_band):
    """Recomputed from the documents: own variety list, else adjacent ROADM restriction, else allowed-for-design."""
    orig = {e['uid']: e for e in tj['elements']}
    lib = lib_entries(ej)
    node, prev, nxt = rec['node'], rec['prev'], rec['next']
    o = orig.get(node.uid, {})
    source = 'library'
    restr = []
    if o.get('variety_list'):
        restr, source = list(o['variety_list']), 'variety_list'
    else:
        def roadm_restr(r, key):
            p = orig[r.uid].get('params', {})
            if 'restrictions' in p:
                return p['restrictions'].get(key, [])
            rl = next(x for x in ej['Roadm'] if x.get('type_variety', 'default') == orig[r.uid].get('type_variety', 'default'))
            return rl.get('restrictions', {}).get(key, [])
        if isinstance(prev, Roadm) and roadm_restr(prev, 'booster_variety_list'):
            restr, source = roadm_restr(prev, 'booster_variety_list'), 'roadm'
        elif isinstance(nxt, Roadm) and roadm_restr(nxt, 'preamp_variety_list'):
            restr, source = roadm_restr(nxt, 'preamp_variety_list'), 'roadm'
    out = []
    for name, e in lib.items():
        if e.get('type_def') == 'multi_band':
            continue
        lo, hi = band_of_entry(ej, e)
        if not (lo <= design_band[0] and hi >= design_band[1]):
            continue
        if name in restr or (not restr and e.get('allowed_for_design', False)):
            out.append(name)
    return sorted(out), source


def judge(ctx, ej, tj, rec, permitted=None, source=None):
    sel = rec['select']
    span = ej['Span'][0]
    si = ej['SI'][0]
    lib = lib_entries(ej)
    ctx.count('selections')
    if permitted is None:
        band = design_band(ej, tj, rec)
        if band is None:
            ctx.skip('empty-design-band')
            return
        permitted, source = permitted_set(ej, tj, rec, band)
    ctx.count('permitted_set_checks')
    if source == 'roadm':
        ctx.count('restricted_by_roadm')
    elif source == 'variety_list':
        ctx.count('restricted_by_variety_list')
    if sel['error']:
        if permitted and 'min gain' not in sel['error']:
            ctx.violation('selection-failed', f'{sel["uid"]}: {sel["error"]} although {len(permitted)} models are permitted')
        return
    chosen, power_reduction = sel['result']
    if sel['candidates'] != permitted:
        ctx.violation('permitted-set', f'{sel["uid"]}: candidates offered to the selection {sel["candidates"][:8]} differ '
                      f'from the permitted set {permitted[:8]} ({source})',
                      {'extra': sorted(set(sel['candidates']) - set(permitted)),
                       'missing': sorted(set(permitted) - set(sel['candidates']))})
        return
    if chosen not in permitted:
        ctx.violation('chosen-not-permitted', f'{sel["uid"]}: chose {chosen}, not in the permitted set ({source})')
        return
    # the power and gain the selection was asked for are the ones the designed amplifier has to deliver: reference total
    # power + designed offset (before the reduction the selection itself reports, before an automatic output VOA)
    st = rec.get('after')
    if st and st['offset'] is not None and st['gain'] is not None:
        auto_v = st['out_voa'] if (rec['power_mode'] and rec['out_voa_before'] is None and
                                   lib[chosen].get('out_voa_auto')) else 0.0
        exp_pt = rec['pref_total_db'] + st['offset'] - power_reduction - auto_v
        exp_g = st['gain'] - power_reduction - auto_v
        ctx.count('selection_vs_design_checks')
        if abs(sel['power_target'] - exp_pt) > 1e-9 or abs(sel['gain_target'] - exp_g) > 1e-9:
            ctx.violation('selection-targets-differ-from-design', f'{sel["uid"]}: the selection was asked for gain '
                          f'{sel["gain_target"]:.6f} dB / total power {sel["power_target"]:.6f} dBm, the designed '
                          f'amplifier has to deliver gain {exp_g:.6f} dB / power {exp_pt:.6f} dBm (reference total '
                          f'{rec["pref_total_db"]:.4f} dBm + offset {st["offset"]:.4f} dB, output VOA {st["out_voa"]}, '
                          f'reported reduction {power_reduction})')
            return
    # Raman rule
    prev = rec['prev']
    limit = span.get('max_fiber_lineic_loss_for_raman', 0.25)
    raman_ok = isinstance(prev, Fiber) and bool(np.all(np.atleast_1d(prev.params.loss_coef) * 1e3 < limit))
    if lib[chosen].get('raman'):
        ctx.count('raman_rule_checks')
        if not raman_ok:
            ctx.violation('raman-not-allowed', f'{sel["uid"]}: Raman model {chosen} chosen after '
                          f'{type(prev).__name__} {prev.uid} (loss limit {limit} dB/km)')
            return
    elif any(lib[n].get('raman') for n in permitted):
        ctx.count('raman_rule_checks')
    # capability from the data sheets
    g, pt, ext = sel['gain_target'], sel['power_target'], sel['ext']
    pin = pt - g
    cap = {}
    near_zero = False
    for n in permitted:
        m = model(ej, n)
        e = lib[n]
        is_raman = bool(e.get('raman'))
        if is_raman and not raman_ok:
            continue
        margin_p = min(pin + m.gain_flatmax() + ext, m.p_max()) - pt
        margin_g = (g - e['gain_min']) if is_raman else (g + 3 - e['gain_min'])
        if abs(margin_p) < 1e-9 or abs(margin_g) < 1e-9:
            near_zero = True
        cap[n] = (margin_p, margin_g, is_raman)
    ctx.count('capability_checks')
    if near_zero:
        ctx.skip('capability-margin-at-zero')
        return
    gain_ok = [n for n, (mp, mg, r) in cap.items() if mg > 0]
    if not gain_ok:
        gain_ok = [n for n, (mp, mg, r) in cap.items() if not r]
        ctx.cls('fallback:below-every-min-gain')
    capable = [n for n in gain_ok if cap[n][0] > 0]
    if capable:
        pool = capable
        if chosen not in capable:
            ctx.violation('chosen-not-capable', f'{sel["uid"]}: {chosen} (power margin {cap.get(chosen, ("?",))[0]}, '
                          f'gain margin {cap.get(chosen, ("?", "?"))[1]}) chosen although {capable[:5]} can deliver '
                          f'gain {g:.3f} dB / power {pt:.3f} dBm', {'capability': {k: v[:2] for k, v in cap.items()}})
            return
    else:
        best = max(cap[n][0] for n in gain_ok)
        pool = [n for n in gain_ok if cap[n][0] - best > -0.3]
        ctx.cls('fallback:nobody-capable')
        if chosen not in pool:
            ctx.violation('chosen-not-best-effort', f'{sel["uid"]}: nobody can deliver the power; {chosen} is not within '
                          f'0.3 dB of the best achievable power', {'capability': {k: v[:2] for k, v in cap.items()}})
            return
        exp_red = min(cap[chosen][0], 0.0)
        if abs(power_reduction - exp_red) > 1e-9:
            ctx.violation('power-reduction', f'{sel["uid"]}: reported power reduction {power_reduction} != {exp_red}')
    # quietest among the pool (gain-only NF models)
    nf = {}
    for n in pool:
        td = lib[n].get('type_def', 'variable_gain')
        if td.startswith('openroadm'):
            nf = None
            break
        if td == 'dual_stage' and any(lib[lib[n][k]].get('type_def', '').startswith('openroadm')
                                      for k in ('preamp_variety', 'booster_variety')):
            nf = None
            break
        try:
            nf[n] = model(ej, n).nf(g)
        except (ValueError, ZeroDivisionError):
            nf = None
            break
    if nf is None:
        ctx.skip('nf-depends-on-input-power')
    else:
        ctx.count('nf_optimality_checks')
        best = min(nf.values())
        if nf[chosen] > best + 1e-9:
            better = min(nf, key=nf.get)
            ctx.violation('not-quietest', f'{sel["uid"]}: {chosen} (NF {nf[chosen]:.4f} dB at gain {g:.3f}) chosen although '
                          f'{better} (NF {best:.4f} dB) is permitted and capable', {'nf': nf})
    if len(permitted) >= 3 and len(capable) >= 2:
        ctx.nontrivial((permitted, round(g, 6), round(pt, 6)))
    ctx.cls(f'permitted:{min(len(permitted), 10)}', f'source:{source}')
    if not ctx.samples:
        ctx.sample({'amplifier': sel['uid'], 'required_gain_db': g, 'required_power_dbm': pt, 'permitted': permitted[:10],
                    'source': source, 'capable': capable[:10], 'chosen': chosen,
                    'nf_at_gain': None if nf is None else {k: round(v, 3) for k, v in list(nf.items())[:8]}})


MB_MEMBER_BANDS = {'C': (191.25e12, 196.15e12), 'L': (186.55e12, 190.05e12)}


def build_multiband_inputs(rng, crossed=False):
    from gnpy.core.science_utils import estimate_nf_model
    """Synthetic multiband groups (every per-band model belongs to exactly one group), two design bands of different
    widths - hence different channel counts and total powers -, every multiband amplifier left to auto-design."""
    ej = G.eqpt_json('eqpt_config_multiband.json')
    for e in ej['Edfa']:
        e['allowed_for_design'] = False
    sp = ej['Span'][0]
    sp['padding'] = G.pick(rng, [10, 8, 11])
    sp['delta_power_range_db'] = G.pick(rng, [[-2, 3, 0.5], [0, 0, 0], [-1, 2, 0.5]])
    groups = []
    # 'ranked' libraries: the same gain range for every model of a band, the quieter the group the lower its maximum
    # power - the noise ranking of the groups is then the same on every band and the designs complete (with free
    # libraries the per-band choices often come from different groups and the design stops: listed finding)
    ranked = rng.random() < 0.65
    shared = {b: (G.pick(rng, [8, 10, 12]), G.pick(rng, [12, 14, 16])) for b in MB_MEMBER_BANDS}
    p0 = {b: G.pick(rng, [15, 16, 17, 18]) for b in MB_MEMBER_BANDS}
    for i in range(rng.randint(2, 5)):
        names = []
        for b, (lo, hi) in MB_MEMBER_BANDS.items():
            m = GE.synth_variable_gain(rng, f'syn_mb{i}_{b}', f_min=lo, f_max=hi, allowed=False)
            m['out_voa_auto'] = False
            # gains / powers in the range the generated spans need, so that capability separates the groups
            m['gain_min'] = G.pick(rng, [8, 10, 12, 15])
            m['gain_flatmax'] = m['gain_min'] + G.pick(rng, [8, 10, 14, 16])
            m['p_max'] = G.pick(rng, [16, 17, 18, 19, 20, 21, 23])
            if ranked:
                m['gain_min'], m['gain_flatmax'] = shared[b][0], shared[b][0] + shared[b][1]
                m['p_max'] = p0[b] + 1.5 * i + G.pick(rng, [0, 0.5])
                m['nf_min'] = round(4.8 + 0.45 * i, 2)
                for spread in (2.0, 3.0, 4.0, 1.5, 5.0, 6.0, 1.0, 7.0):
                    m['nf_max'] = round(m['nf_min'] + spread, 2)
                    try:
                        estimate_nf_model(m['type_variety'], m['gain_min'], m['gain_flatmax'], m['nf_min'], m['nf_max'])
                        break
                    except Exception:  # noqa
                        continue
            for k in range(400):
                try:
                    estimate_nf_model(m['type_variety'], m['gain_min'], m['gain_flatmax'], m['nf_min'], m['nf_max'])
                    break
                except Exception:  # noqa
                    if k > 300:
                        m['gain_flatmax'] = m['gain_min'] + G.pick(rng, [6, 8, 10])
                    m['nf_min'] = G.rnd(rng, 4.6, 7.5, 2)
                    m['nf_max'] = round(m['nf_min'] + G.rnd(rng, 0.8, 6, 2), 2)
            ej['Edfa'].append(m)
            names.append(m['type_variety'])
        if crossed and i >= 2:
            break
        g = {'type_variety': f'syn_group_{i}', 'type_def': 'multi_band', 'amplifiers': names,
             'allowed_for_design': rng.random() < 0.85}
        ej['Edfa'].append(g)
        groups.append(g)
    if not any(g['allowed_for_design'] for g in groups):
        groups[0]['allowed_for_design'] = True
    if crossed:
        # dedicated case of the listed finding: two groups, both able to deliver everything, group 0 quieter on C and
        # group 1 quieter on L
        lib = {e['type_variety']: e for e in ej['Edfa']}
        for g in groups:
            g['allowed_for_design'] = True
        for i, b, nf in ((0, 'C', 5.0), (0, 'L', 7.0), (1, 'C', 7.0), (1, 'L', 5.0)):
            m = lib[f'syn_mb{i}_{b}']
            m.update(gain_min=10, gain_flatmax=26, p_max=25, nf_min=nf, nf_max=nf + 3.0)
    # (each design band has a channel spacing of its own: the design load of a band is the band filled at that spacing)
    bands = [{'f_min': 191.3e12, 'f_max': G.pick(rng, [196.0e12, 196.0e12, 194.0e12]),
              'spacing': G.pick(rng, [50e9, 50e9, 37.5e9, 75e9])},
             {'f_min': G.pick(rng, [187.0e12, 188.5e12, 189.0e12]), 'f_max': 190.0e12,
              'spacing': G.pick(rng, [50e9, 50e9, 100e9])}]

    def rp(r, s):
        return {'design_bands': deepcopy(bands)}
    tj, _ = G.gen_topology(rng, n_sites=rng.randint(2, 3), max_spans=2, user_amps=False, fused=False, roadm_params=rp,
                           max_km=120)
    els, cx = tj['elements'], tj['connections']
    for c in list(cx):
        if c['from_node'].startswith('roadm') and c['to_node'].startswith('fiber'):
            uid = f'booster {c["from_node"]} to {c["to_node"]}'
            els.append({'uid': uid, 'type': 'Multiband_amplifier', 'type_variety': '', 'amplifiers': [],
                        'metadata': G._loc(0, 0)})
            cx.remove(c)
            cx.append({'from_node': c['from_node'], 'to_node': uid})
            cx.append({'from_node': uid, 'to_node': c['to_node']})
        elif c['from_node'].startswith('fiber') and c['to_node'].startswith('roadm'):
            # (a preamp left to auto-design would be inserted as a single-band amplifier: C08's listed finding)
            uid = f'preamp {c["to_node"]} from {c["from_node"]}'
            els.append({'uid': uid, 'type': 'Multiband_amplifier', 'type_variety': '', 'amplifiers': [],
                        'metadata': G._loc(0, 0)})
            cx.remove(c)
            cx.append({'from_node': c['from_node'], 'to_node': uid})
            cx.append({'from_node': uid, 'to_node': c['to_node']})
    return ej, tj, groups, bands


def run_multiband(case, ctx):
    """Auto-selection of multiband amplifiers: the per-band candidates offered to the selection are the members of the
    permitted groups that can deliver, on EVERY band, that band's own gain and total power; each band's choice is then
    judged like a single-band one; the designed amplifier is one permitted group."""
    rng = ctx.rng
    ej, tj, groups, bands = build_multiband_inputs(rng, crossed=case['kind'] == 'kf-multiband-crossed')
    equipment = G.make_equipment(ej)
    network = G.make_network(tj, equipment)
    srs = case['kind'] == 'multiband' and rng.random() < 0.35
    # with the Raman flag on the design estimates the power tilt that stimulated Raman scattering builds up between
    # and inside the bands and hands per-band deviations / tilt targets to the selection
    SimParams.set_params({'raman_params': {'flag': True, 'result_spatial_resolution': 10e3,
                                           'solver_spatial_resolution': 10e3}} if srs else {})
    if srs:
        ctx.count('multiband_designs_with_srs_estimation')
    _CALLS.clear()
    _stack.clear()
    ctx.dump.update({'equipment_edfa': [e for e in ej['Edfa'] if e['type_variety'].startswith('syn')], 'srs': srs,
                     'equipment_span': ej['Span'], 'topology': tj, 'design_bands': bands})
    lib = lib_entries(ej)
    ext = ej['Span'][0].get('target_extended_gain', 2.5)
    err = None
    try:
        G.design(equipment, network)
    except ConfigurationError as e:
        err = e
    finally:
        SimParams.set_params({})
    parents = [n for n in network.nodes() if isinstance(n, Multiband_amplifier)]
    owner = {id(a): (p, b) for p in parents for b, a in p.amplifiers.items()}
    # consecutive per-band calls of one multiband amplifier form one selection
    runs, cur = [], None
    for rec in _CALLS:
        o = owner.get(id(rec['node']))
        if o is None or rec['variety_before'] != '':
            cur = None
            continue
        if cur is None or cur['parent'] is not o[0] or o[1] in cur['bands']:
            cur = {'parent': o[0], 'bands': {}}
            runs.append(cur)
        cur['bands'][o[1]] = rec
    permitted_groups = [g for g in groups if g['allowed_for_design']]
    for run in runs:
        ctx.count('multiband_selections')
        recs = run['bands']
        if any(r['select'] is None or r['select']['error'] for r in recs.values()):
            ctx.skip('multiband-selection-stopped')
            continue
        if len(recs) != len(run['parent'].amplifiers):
            ctx.skip('multiband-selection-incomplete')
            continue

        def member(g, band_name):
            lo, hi = next((b['f_min'], b['f_max']) for b in _bands_of(run['parent'], band_name, bands))
            return next((n for n in g['amplifiers'] if lib[n]['f_min'] <= lo and lib[n]['f_max'] >= hi), None)

        def capable(name, sel):
            e = lib[name]
            g, pt = sel['gain_target'], sel['power_target']
            mp = min(pt - g + e['gain_flatmax'] + ext, e['p_max']) - pt
            mg = g + 3 - e['gain_min']
            return mp, mg
        margins = {g['type_variety']: {b: capable(member(g, b), r['select']) if member(g, b) else None
                                       for b, r in recs.items()} for g in permitted_groups}
        if any(m is not None and (abs(m[0]) < 1e-9 or abs(m[1]) < 1e-9) for d in margins.values() for m in d.values()):
            ctx.skip('capability-margin-at-zero')
            continue
        full = [g for g in permitted_groups
                if all(m is not None and m[0] > 0 and m[1] > 0 for m in margins[g['type_variety']].values())]
        if not full:
            ctx.skip('no-group-capable-on-every-band')
            ctx.cls('multiband:no-fully-capable-group')
            continue
        # reference total power of each band: reference channel power + the band filled at its own spacing
        si = ej['SI'][0]
        if not si.get('use_si_channel_count_for_design', False):
            for b, r in recs.items():
                bd = next(iter(_bands_of(run['parent'], b, bands)), None)
                if bd is None:
                    continue
                exp_tot = si['power_dbm'] + 10 * np.log10(int((bd['f_max'] - bd['f_min']) // bd['spacing']))
                ctx.count('band_reference_power_checks')
                if abs(r['pref_total_db'] - exp_tot) > 1e-9:
                    ctx.violation('band-reference-power', f'{run["parent"].uid} band {b}: design load {r["pref_total_db"]:.4f} dBm,'
                                  f' the band {bd} filled with reference channels at its own spacing gives {exp_tot:.4f} dBm')
                    return
        ctx.count('multiband_preselection_checks')
        totals = {b: round(r['pref_total_db'], 3) for b, r in recs.items()}
        if len(set(totals.values())) > 1:
            ctx.count('multiband_bands_with_different_total_power')
        for b, r in recs.items():
            exp = sorted(member(g, b) for g in full)
            if r['select']['candidates'] != exp:
                ctx.violation('multiband-preselection', f'{run["parent"].uid} band {b}: candidates offered to the selection '
                              f'{r["select"]["candidates"]} differ from the members of the groups that can deliver every '
                              f"band's own gain and power {exp} (band totals {totals} dBm)",
                              {'margins': {k: {bb: None if m is None else [round(x, 4) for x in m] for bb, m in v.items()}
                                           for k, v in margins.items()}})
                return
            judge(ctx, ej, tj, r, permitted=exp, source='multiband')
            if ctx.violations:
                return
        if len(full) >= 2:
            ctx.nontrivial(('multiband', P.digest(ctx.dump['equipment_edfa']), run['parent'].uid))
    if err is not None:
        mech = None
        if 'amps do not belong to the same amp type' in str(err):
            # witness predicate of the listed finding: the per-band models named by the error are members of different
            # groups, each of them allowed for design (the preselection was right, the per-band choices were made
            # independently of each other)
            import re
            named = re.findall(r"'(syn_mb\d+_[CL])'", str(err).split('amps do not belong')[0])
            owners = {n: [g['type_variety'] for g in permitted_groups if n in g['amplifiers']] for n in named}
            if len(named) >= 2 and all(len(v) == 1 for v in owners.values()) and \
                    len({v[0] for v in owners.values()}) > 1:
                mech = 'multiband-per-band-choices-from-different-groups'
        ctx.violation('multiband-selection', f'auto-selection of a multiband amplifier failed: {str(err)[:300]}',
                      mechanism=mech)
        return
    for p in parents:
        e = lib.get(p.type_variety)
        if e is None or e.get('type_def') != 'multi_band' or not e.get('allowed_for_design'):
            ctx.violation('multiband-selection', f'{p.uid}: designed as {p.type_variety!r}, not a group allowed for design')
        elif sorted(a.params.type_variety for a in p.amplifiers.values()) != sorted(e['amplifiers']):
            ctx.violation('multiband-selection', f'{p.uid}: per-band models '
                          f'{[a.params.type_variety for a in p.amplifiers.values()]} are not the members of {p.type_variety}')
    ctx.cls('kind:multiband')
    if not ctx.samples:
        ctx.sample({'kind': 'multiband', 'groups': [g['type_variety'] for g in groups], 'design_bands': bands,
                    'multiband_amplifiers': len(parents), 'selections': len(runs)})
    if not ctx.violations:
        ctx.dump.clear()


def _bands_of(parent, band_name, bands):
    """design band (of the generated ones) that the per-band amplifier `band_name` of `parent` serves"""
    amp = parent.amplifiers[band_name]
    lo, hi = amp.params.f_min, amp.params.f_max
    return [b for b in bands if lo <= b['f_min'] and hi >= b['f_max']]


def run_known(case, ctx):
    """Multiband auto-selection on the shipped multiband library (listed finding)."""
    rng = ctx.rng
    ej = G.eqpt_json('eqpt_config_multiband.json')

    def rp(r, s):
        return {'design_bands': deepcopy(P.MB_BANDS)}
    tj, _ = G.gen_topology(rng, n_sites=2, max_spans=1, user_amps=False, fused=False, roadm_params=rp)
    els, cx = tj['elements'], tj['connections']
    for c in list(cx):
        if c['from_node'].startswith('roadm') and c['to_node'].startswith('fiber'):
            uid = f'booster {c["from_node"]} to {c["to_node"]}'
            els.append({'uid': uid, 'type': 'Multiband_amplifier', 'type_variety': '', 'amplifiers': [],
                        'metadata': G._loc(0, 0)})
            cx.remove(c)
            cx.append({'from_node': c['from_node'], 'to_node': uid})
            cx.append({'from_node': uid, 'to_node': c['to_node']})
    equipment = G.make_equipment(ej)
    network = G.make_network(tj, equipment)
    SimParams.set_params({})
    ctx.nontrivial(('kf-multiband-auto', P.digest(tj)))
    lib = lib_entries(ej)
    try:
        G.design(equipment, network)
    except ConfigurationError as e:
        mech = 'multiband-preselection-leaves-permitted-set' if 'amps do not belong to the same amp type' in str(e) \
            else None
        ctx.violation('multiband-selection', f'auto-selection of a multiband amplifier failed: {str(e)[:300]}',
                      mechanism=mech)
        return
    for n in network.nodes():
        if isinstance(n, Multiband_amplifier):
            e = lib.get(n.type_variety)
            if e is None or not e.get('allowed_for_design') and not next(
                    (x for x in tj['elements'] if x['uid'] == n.uid and x.get('type_variety')), None):
                ctx.violation('multiband-selection', f'{n.uid}: auto-selected multiband variety {n.type_variety} is not '
                              'allowed for design', mechanism='multiband-preselection-leaves-permitted-set')
            elif sorted(a.params.type_variety for a in n.amplifiers.values()) != sorted(
                    v for v in e['amplifiers'] if v in [a.params.type_variety for a in n.amplifiers.values()]):
                ctx.violation('multiband-selection', f'{n.uid}: per-band models do not belong to {n.type_variety}')


def run_case(case, ctx):
    install()
    if case['kind'] == 'kf-multiband-crossed':
        return run_multiband(case, ctx)
    if case['kind'].startswith('kf-'):
        return run_known(case, ctx)
    if case['kind'] == 'multiband':
        return run_multiband(case, ctx)
    rng = ctx.rng
    ej, tj = build_inputs(rng, case['kind'])
    equipment = G.make_equipment(ej)
    network = G.make_network(tj, equipment)
    SimParams.set_params({})
    _CALLS.clear()
    _stack.clear()
    ctx.dump.update({'equipment_edfa': ej['Edfa'], 'equipment_roadm': ej['Roadm'][:1], 'equipment_span': ej['Span'],
                     'topology': tj})
    try:
        G.design(equipment, network)
    except ConfigurationError as e:
        if 'could not find any amplifier' in str(e) or 'min gain' in str(e):
            ctx.reject(str(e)[:200])
        else:
            raise
    for rec in list(_CALLS):
        if rec['select'] is not None:
            judge(ctx, ej, tj, rec)
            if ctx.violations:
                return
        elif rec['variety_before'] == '' and not isinstance(rec['node'], Multiband_amplifier):
            ctx.violation('no-selection', f'{rec["node"].uid}: amplifier without model was designed without selection')
    ctx.cls(f'kind:{case["kind"]}')
    if not ctx.violations and rng.random() < 0.35:
        # history: the loaded library is edited in place (a what-if study in one process: every Amp object of the
        # library takes the values of another data sheet) and a fresh copy of the topology is designed with it.
        # Whatever the selection remembers from the first design must not survive the edit.
        ej2 = perturbed_library(rng, ej)
        if ej2 is not None:
            eq2 = G.make_equipment(ej2)
            for name, amp in equipment['Edfa'].items():
                vars(amp).clear()
                vars(amp).update(vars(eq2['Edfa'][name]))
            network2 = G.make_network(tj, equipment)
            SimParams.set_params({})
            _CALLS.clear()
            _stack.clear()
            ctx.dump['equipment_edfa_after_edit'] = ej2['Edfa']
            try:
                G.design(equipment, network2)
            except ConfigurationError as e:
                if 'could not find any amplifier' not in str(e) and 'min gain' not in str(e):
                    raise
            for rec in list(_CALLS):
                if rec['select'] is not None:
                    ctx.count('selections_after_library_edit')
                    judge(ctx, ej2, tj, rec)
                    if ctx.violations:
                        return
    if not ctx.violations:
        ctx.dump.clear()
