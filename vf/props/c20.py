"""C20 - spreadsheet inputs convert to the network and services they describe.

Monitor: generated workbooks (written with openpyxl from an abstract description) are converted by the real
converter; the result is compared with an independent workbook model that computes the expected elements, the
per-direction fibre values (west defaulting to east), the wiring (each amplifier faces the named neighbour), the
ILA->ROADM correction and the requests of the Service sheet; every violated sanity rule must raise the topology
error.  The converted topology is also loaded and designed.  Shipped .xls files are re-saved as .xlsx and both code
paths must give the same document.
"""
import math
import os
import shutil
import tempfile
from copy import deepcopy
from pathlib import Path

import openpyxl

from gnpy.core.exceptions import NetworkTopologyError, ServiceError
from gnpy.core.parameters import SimParams
from gnpy.tools.convert import xls_to_json_data
from gnpy.tools.service_sheet import read_service_sheet

from vf.gen import common as G
from vf.props import _prop_common as P

ID = 'C20'
RULE = ('generated workbooks: 3..9 sites of type ROADM / ILA / FUSED (ILA also declared on sites of degree != 2), random '
        'connected link sets, link rows with east-only or east+west values (distance, fibre type, loss, connectors, PMD, '
        'cable id), Eqpt rows for ROADM degrees and ILA sites (one- or two-sided settings, fused boosters), Roadms rows '
        '(per-degree targets), restrictions, Service sheets (modes, spacing, power, channel count, bandwidth, route '
        'lists, strictness, disjoint-from); plus workbooks violating exactly one sanity rule; plus the shipped .xls '
        'files re-saved as .xlsx. Non-trivial: a workbook with at least one asymmetric link row or one Eqpt row, or '
        'an invalid workbook. Distinct: hash of the description.')
ASSUMPTIONS = ['no .xls writer is available offline: the xlrd code path is exercised with the shipped .xls files only '
               '(differential against the same content saved as .xlsx)',
               'route lists of services name ROADM sites (the documented case)']
REQUIRED_COUNTERS = {'workbooks_converted': 30, 'fibre_checks': 200, 'amplifier_placement_checks': 60,
                     'invalid_workbooks': 15, 'service_rows_checked': 40, 'designs_of_converted_topologies': 30,
                     'xls_xlsx_differentials': 2, 'line_routes_checked': 5, 'ila_route_entries': 5,
                     'routes_with_unknown_loose_names': 5, 'routes_naming_an_ila_before_an_unnamed_fused_site': 2}
CASE_TIMEOUT = {'quick': 300, 'thorough': 600}
ARROW = '→'


def plan(tier, seed):
    n = 320 if tier == 'quick' else 4800
    kinds = ['valid', 'valid', 'invalid', 'valid', 'service', 'valid', 'invalid', 'shipped']
    return [{'idx': i, 'kind': kinds[i % len(kinds)]} for i in range(n)]


# ------------------------------------------------------------------------------------------------ description

def gen_description(rng, chain=False):
    n = rng.randint(5 if chain else 3, 9)
    cities = [f'S{i}' for i in range(n)]
    # connected graph where several sites have degree 2 (candidates for ILA / FUSED)
    links = set()
    order = cities[:]
    rng.shuffle(order)
    forced = {}
    if chain:
        # a line ROADM - x - y - ROADM whose two inner sites have degree 2 and are an ILA next to a FUSED site (or two ILAs)
        for i in range(1, 4):
            links.add(tuple(sorted((order[i], order[i - 1]))))
        links.add(tuple(sorted((order[4], order[3]))))        # the line goes on behind the second ROADM
        for i in range(5, n):
            links.add(tuple(sorted((order[i], order[rng.choice([0] + list(range(3, i)))]))))
        for _ in range(rng.randint(0, 2)):
            a, b = rng.sample([order[0]] + order[3:], 2) if n > 4 else (order[0], order[3])
            if a != b:
                links.add(tuple(sorted((a, b))))
        inner = rng.choice([('ILA', 'FUSED'), ('FUSED', 'ILA'), ('ILA', 'ILA'), ('ILA', 'FUSED'), ('ILA', 'FUSED')])
        forced = {order[0]: 'ROADM', order[1]: inner[0], order[2]: inner[1], order[3]: 'ROADM', order[4]: 'ROADM'}
    else:
        for i in range(1, n):
            links.add(tuple(sorted((order[i], order[rng.randrange(max(0, i - 2), i)]))))
        for _ in range(rng.randint(0, 2)):
            a, b = rng.sample(cities, 2)
            links.add(tuple(sorted((a, b))))
    links = sorted(links)
    chain_sites = order[:5] if chain else None
    deg = {c: sum(1 for l in links if c in l) for c in cities}
    nodes = {}
    for c in cities:
        if deg[c] == 2:
            t = rng.choice(['ILA', 'ILA', 'ROADM', 'FUSED', ''])
        else:
            t = rng.choice(['ROADM', 'ROADM', 'ILA', ''])        # ILA on degree != 2 must be corrected to ROADM
        t = forced.get(c, t)
        nodes[c] = {'city': c, 'state': 'st', 'country': 'co', 'region': rng.choice(['R1', 'R2']),
                    'latitude': round(rng.uniform(40, 50), 3), 'longitude': round(rng.uniform(-5, 8), 3), 'type': t,
                    'booster': rng.choice(['', '', 'std_medium_gain | std_low_gain']),
                    'preamp': rng.choice(['', '', 'std_low_gain'])}
    # at least two ROADMs
    roadms = [c for c in cities if eff_type(nodes[c], deg[c]) == 'ROADM']
    for c in cities:
        if len(roadms) >= 2:
            break
        if c not in roadms:
            nodes[c]['type'] = 'ROADM'
            roadms.append(c)
    lrows = []
    for k, (a, b) in enumerate(links):
        if rng.random() < 0.5:
            a, b = b, a
        row = {'a': a, 'z': b, 'east': {'distance': rng.choice([round(rng.uniform(20, 120), 3), rng.randint(20, 120)]),
                                        'fiber': rng.choice(['SSMF', 'NZDF', 'LOF']),
                                        'lineic': rng.choice([0.2, 0.21, 0.22, 0.19]),
                                        'con_in': rng.choice([None, 0.5, 0.3, 0]), 'con_out': rng.choice([None, 0.5, 0.4, 0]),
                                        'pmd': rng.choice([None, None, 0.04, 0.1, 0]), 'cable': f'F{k:03d}'}, 'west': {}}
        if rng.random() < 0.5:
            row['west'] = {'distance': rng.choice([round(rng.uniform(20, 120), 3), rng.randint(20, 120)]),
                           'fiber': rng.choice(['SSMF', 'NZDF']),
                           'lineic': rng.choice([0.2, 0.23, 0.25]), 'con_in': rng.choice([None, 0.2, 0]),
                           'con_out': rng.choice([None, 0.6, 0]), 'pmd': rng.choice([None, 0.08, 0]),
                           'cable': f'G{k:03d}'}
            if rng.random() < 0.5:
                # partially filled west side: the rest defaults to east
                for key in rng.sample(sorted(row['west']), rng.randint(1, 4)):
                    row['west'].pop(key)
        lrows.append(row)
    erows = []
    for c in cities:
        t = eff_type(nodes[c], deg[c])
        nb = neighbours(c, lrows)
        if t == 'ROADM':
            declared_ila = nodes[c]['type'] not in ('ROADM', 'FUSED')
            for z in nb:
                if rng.random() < 0.35:
                    erows.append(eqpt_row(rng, c, z, allow_fused=True))
                    if declared_ila:
                        # a site declared ILA may carry one Eqpt line only (sanity rule), whatever its degree
                        break
        elif t == 'ILA' and rng.random() < 0.5:
            erows.append(eqpt_row(rng, c, rng.choice(nb), allow_fused=False))
    rrows = []
    for e in erows:
        if eff_type(nodes[e['a']], deg[e['a']]) == 'ROADM' and e['east'].get('type', '') != 'fused' and rng.random() < 0.4:
            rrows.append({'a': e['a'], 'z': e['z'], 'target': rng.choice([-20, -18.5, -21])})
    return {'nodes': nodes, 'links': lrows, 'eqpt': erows, 'roadms': rrows, 'cities': cities, 'chain': chain_sites}


def eqpt_row(rng, a, z, allow_fused):
    def side():
        s = {}
        r = rng.random()
        if r < 0.6:
            s['type'] = rng.choice(['std_medium_gain', 'std_low_gain', 'std_high_gain'])
        elif r < 0.7 and allow_fused:
            s['type'] = 'fused'
        if s.get('type') != 'fused':
            if rng.random() < 0.5:
                s['gain'] = rng.choice([15.0, 18.5, 20, 22.0, 17])
            if rng.random() < 0.4:
                s['dp'] = rng.choice([0, 1.0, -1.0, 2.5])
            if rng.random() < 0.3:
                s['tilt'] = rng.choice([0, -0.5, 1.0])
            if rng.random() < 0.3:
                s['att_out'] = rng.choice([0, 1.0, 2.0])
            if rng.random() < 0.2:
                s['att_in'] = rng.choice([0.5, 1.0])
        return s
    return {'a': a, 'z': z, 'east': side(), 'west': side() if rng.random() < 0.7 else {}}


def neighbours(c, lrows):
    out = []
    for r in lrows:
        if r['a'] == c:
            out.append(r['z'])
        elif r['z'] == c:
            out.append(r['a'])
    return out


def eff_type(node, degree):
    t = node['type'] if node['type'] in ('ROADM', 'ILA', 'FUSED') else 'ILA'
    if t == 'ILA' and degree != 2:
        return 'ROADM'
    return t


# ------------------------------------------------------------------------------------------------ workbook

def write_workbook(desc, path, services=None, with_topology=True):
    wb = openpyxl.Workbook()
    wb.remove(wb.active)
    if with_topology:
        ws = wb.create_sheet('Nodes')
        ws.append([])
        ws.append([])
        ws.append([])
        ws.append([None] * 7 + ['comment'])
        ws.append(['City', 'State', 'Country', 'Region', 'Latitude', 'Longitude', 'Type', 'Booster_restriction',
                   'Preamp_restriction'])
        for n in desc['nodes'].values():
            ws.append([n['city'], n['state'], n['country'], n['region'], n['latitude'], n['longitude'], n['type'] or None,
                       n['booster'] or None, n['preamp'] or None])
        ws = wb.create_sheet('Links')
        ws.append(['generated'])
        ws.append([])
        ws.append([])
        ws.append([None, None, 'east cable (from a to z)'] + [None] * 6 + ['west (from z to a)'])
        sub = ['Distance (km)', 'Fiber type', 'lineic att', 'Con_in', 'Con_out', 'PMD', 'Cable id']
        ws.append(['Node A', 'Node Z'] + sub + sub)
        keys = ['distance', 'fiber', 'lineic', 'con_in', 'con_out', 'pmd', 'cable']
        for r in desc['links']:
            ws.append([r['a'], r['z']] + [r['east'].get(k) for k in keys] + [r['west'].get(k) for k in keys])
        if desc['eqpt'] or desc.get('force_eqpt_sheet'):
            ws = wb.create_sheet('Eqpt')
            ws.append(['OPTIONAL'])
            ws.append([])
            ws.append([])
            ws.append([None, None, 'east Node a egress amp (from a to z)'] + [None] * 5 +
                      ['west Node a ingress amp (from z to a)'])
            sub = ['amp type', 'att_in', 'amp gain', 'delta p', 'tilt', 'att_out']
            ws.append(['Node A', 'Node Z'] + sub + sub)
            keys = ['type', 'att_in', 'gain', 'dp', 'tilt', 'att_out']
            for r in desc['eqpt']:
                ws.append([r['a'], r['z']] + [r['east'].get(k) for k in keys] + [r['west'].get(k) for k in keys])
        if desc['roadms']:
            ws = wb.create_sheet('Roadms')
            ws.append([])
            ws.append([])
            ws.append([])
            ws.append([])
            ws.append(['Node A', 'Node Z', 'per degree target power (dBm)', 'type_variety', 'from degrees',
                       'from degree to degree impairment id'])
            for r in desc['roadms']:
                ws.append([r['a'], r['z'], r['target'], None, None, None])
    if services is not None:
        ws = wb.create_sheet('Service')
        ws.append([])
        ws.append([])
        ws.append([])
        ws.append([None] * 8 + ['optional'])
        ws.append(['route id', 'Source', 'Destination', 'TRX type', 'Mode', 'System: spacing',
                   'System: input power (dBm)', 'System: nb of channels', 'routing: disjoint from', 'routing: path',
                   'routing: is loose?', 'path bandwidth'])
        for s in services:
            ws.append([s['id'], s['src'], s['dst'], s['trx'], s['mode'], s['spacing'], s['power'], s['nch'],
                       s['disjoint'], s.get('path_cell', s['path']), s['loose'], s['bw']])
    wb.save(path)


# ------------------------------------------------------------------------------------------------ model

def fibre_uid(a, z, cable):
    return f'fiber ({a} {ARROW} {z})-{cable}'


def side_values(row, side):
    e = row['east']
    if side == 'east':
        return e
    w = dict(row['west'])
    out = {}
    defaults = {'distance': 80, 'fiber': 'SSMF', 'lineic': 0.2, 'con_in': None, 'con_out': None, 'pmd': None, 'cable': ''}
    for k, dflt in defaults.items():
        ev = e.get(k) if e.get(k) not in (None, '') else dflt
        out[k] = w.get(k) if w.get(k) not in (None, '') else ev
    return out


def expected_model(desc):
    """Expected elements and wiring, computed from the description only."""
    nodes, lrows, erows = desc['nodes'], desc['links'], desc['eqpt']
    deg = {c: len(neighbours(c, lrows)) for c in nodes}
    typ = {c: eff_type(nodes[c], deg[c]) for c in nodes}
    els = {}
    for c in nodes:
        if typ[c] == 'ROADM':
            els[f'trx {c}'] = {'type': 'Transceiver'}
            els[f'roadm {c}'] = {'type': 'Roadm'}
        elif typ[c] == 'FUSED':
            els[f'west fused spans in {c}'] = {'type': 'Fused'}
            els[f'east fused spans in {c}'] = {'type': 'Fused'}
    fib = {}
    for r in lrows:
        for side, (a, z) in (('east', (r['a'], r['z'])), ('west', (r['z'], r['a']))):
            v = side_values(r, side)
            uid = fibre_uid(a, z, v['cable'])
            params = {'length': round(v['distance'], 3), 'length_units': 'km', 'loss_coef': v['lineic'],
                      'con_in': v['con_in'], 'con_out': v['con_out']}
            if v['pmd'] is not None:        # (0 ps is a value: a link without PMD)
                params['pmd_coef'] = v['pmd'] * 1e-12 / math.sqrt(1e3)      # ps/sqrt(km) -> s/sqrt(m)
            els[uid] = {'type': 'Fiber', 'type_variety': v['fiber'], 'params': params}
            fib[(a, z)] = uid
    by_city = {}
    for e in erows:
        by_city.setdefault(e['a'], []).append(e)
    amps = {}          # uid -> (kind, settings, must be followed by fibre to, must be preceded by fibre from)
    for c in nodes:
        nb = neighbours(c, lrows)
        if typ[c] == 'ILA':
            if c in by_city:
                e = by_city[c][0]
                other = next(x for x in nb if x != e['z']) if len(set(nb)) == 2 else e['z']
                amps[f'east edfa in {c} to {e["z"]}'] = ('east', e['east'], fib[(c, e['z'])], fib[(other, c)])
                amps[f'west edfa in {c} to {e["z"]}'] = ('west', e['west'], fib[(c, other)], fib[(e['z'], c)])
            else:
                amps[f'west edfa in {c}'] = ('auto', {}, None, None)
                amps[f'east edfa in {c}'] = ('auto', {}, None, None)
        elif typ[c] == 'ROADM':
            for e in by_city.get(c, []):
                amps[f'east edfa in {c} to {e["z"]}'] = ('east', e['east'], fib[(c, e['z'])], f'roadm {c}')
                amps[f'west edfa in {c} to {e["z"]}'] = ('west', e['west'], f'roadm {c}', fib[(e['z'], c)])
    for uid, (kind, s, nxt, prv) in amps.items():
        if s.get('type', '').lower() == 'fused':
            els[uid] = {'type': 'Fused'}
        else:
            el = {'type': 'Edfa'}
            if kind != 'auto':
                el['operational'] = {'gain_target': s.get('gain'), 'delta_p': s.get('dp'), 'tilt_target': s.get('tilt'),
                                     'out_voa': s.get('att_out'), 'in_voa': s.get('att_in', 0)}
                if s.get('type'):
                    el['type_variety'] = s['type']
            els[uid] = el
    return {'elements': els, 'amps': amps, 'fibres': fib, 'types': typ}


def check_conversion(ctx, desc, data):
    m = expected_model(desc)
    got = {e['uid']: e for e in data['elements']}
    uids = [e['uid'] for e in data['elements']]
    if len(set(uids)) != len(uids):
        ctx.violation('duplicate-names', f'converted elements are not unique: {sorted(u for u in uids if uids.count(u) > 1)[:4]}')
    if set(got) != set(m['elements']):
        ctx.violation('element-set', 'converted element set differs from the workbook description',
                      {'missing': sorted(set(m['elements']) - set(got))[:5], 'unexpected': sorted(set(got) - set(m['elements']))[:5],
                       'types': m['types']})
        return
    for uid, exp in m['elements'].items():
        g = got[uid]
        if g['type'] != exp['type']:
            ctx.violation('element-type', f'{uid}: converted as {g["type"]}, described as {exp["type"]}')
            continue
        if exp['type'] == 'Fiber':
            ctx.count('fibre_checks')
            if g.get('type_variety') != exp['type_variety']:
                ctx.violation('fibre-values', f'{uid}: fibre type {g.get("type_variety")}, sheet says {exp["type_variety"]}')
            for k, v in exp['params'].items():
                gv = g['params'].get(k)
                ok = (gv == v) if not isinstance(v, float) else (gv is not None and abs(gv - v) <= 1e-12 * max(1, abs(v)))
                if not ok:
                    ctx.violation('fibre-values', f'{uid}: {k} = {gv!r}, the sheet (west defaulting to east) gives {v!r}')
            if 'pmd_coef' in g['params'] and 'pmd_coef' not in exp['params']:
                ctx.violation('fibre-values', f'{uid}: PMD set although the sheet gives none')
        elif exp['type'] == 'Edfa' and 'operational' in exp:
            op = g.get('operational', {})
            for k, v in exp['operational'].items():
                if op.get(k) != v:
                    ctx.violation('amplifier-settings', f'{uid}: {k} = {op.get(k)!r}, the Eqpt sheet gives {v!r}')
            if g.get('type_variety') != exp.get('type_variety'):
                ctx.violation('amplifier-settings', f'{uid}: type {g.get("type_variety")!r}, sheet gives '
                              f'{exp.get("type_variety")!r}')
    # wiring
    succ, pred = {}, {}
    for c in data['connections']:
        for end in (c['from_node'], c['to_node']):
            if end not in got:
                ctx.violation('dangling-connection', f'connection {c} refers to a missing element')
                return
        succ.setdefault(c['from_node'], []).append(c['to_node'])
        pred.setdefault(c['to_node'], []).append(c['from_node'])
    for uid, e in got.items():
        if e['type'] not in ('Roadm', 'Transceiver'):
            if len(succ.get(uid, [])) != 1 or len(pred.get(uid, [])) != 1:
                ctx.violation('wiring-degree', f'{uid}: {len(pred.get(uid, []))} predecessors, {len(succ.get(uid, []))} successors')
    for uid, (kind, s, nxt, prv) in m['amps'].items():
        if kind == 'auto':
            continue
        ctx.count('amplifier_placement_checks')
        if succ.get(uid) != [nxt] or pred.get(uid) != [prv]:
            ctx.violation('amplifier-placement', f'{uid}: wired {pred.get(uid)} -> . -> {succ.get(uid)}; its settings '
                          f'belong between {prv} and {nxt}')
    # both directions of every link leave/enter the right sites
    for (a, z), fuid in m['fibres'].items():
        def site_of(u):
            return u
        # follow backwards to the site a and forwards to the site z
        cur, guard = fuid, 0
        while guard < 10 and pred.get(cur) and got[pred[cur][0]]['type'] in ('Edfa', 'Fused') and \
                ' in ' in pred[cur][0] and f' in {a}' in pred[cur][0]:
            cur = pred[cur][0]
            guard += 1
        src = pred.get(cur, [None])[0]
        if m['types'][a] == 'ROADM' and src != f'roadm {a}':
            ctx.violation('fibre-wiring', f'{fuid}: does not leave roadm {a} (comes from {src})')
    # per-degree targets
    for r in desc['roadms']:
        g = got.get(f'roadm {r["a"]}', {})
        key = f'east edfa in {r["a"]} to {r["z"]}'
        if g.get('params', {}).get('per_degree_pch_out_db', {}).get(key) != r['target']:
            ctx.violation('per-degree-target', f'roadm {r["a"]}: per-degree target towards {r["z"]} not on {key}')
    for c, n in desc['nodes'].items():
        if m['types'][c] == 'ROADM' and (n['booster'] or n['preamp']):
            restr = got[f'roadm {c}'].get('params', {}).get('restrictions', {})
            if restr.get('booster_variety_list') != [x for x in n['booster'].split(' | ') if x] or \
                    restr.get('preamp_variety_list') != [x for x in n['preamp'].split(' | ') if x]:
                ctx.violation('restrictions', f'roadm {c}: restrictions {restr} differ from the Nodes sheet')
    return m


# ------------------------------------------------------------------------------------------------ cases

def run_valid(case, ctx, tmp):
    rng = ctx.rng
    desc = gen_description(rng)
    path = Path(tmp) / 'net.xlsx'
    write_workbook(desc, path)
    ctx.dump.update({'description': desc})
    data = xls_to_json_data(path)
    ctx.count('workbooks_converted')
    m = check_conversion(ctx, desc, data)
    if ctx.violations:
        return
    ej = G.eqpt_json()
    equipment = G.make_equipment(ej)
    network = G.make_network(data, equipment)
    SimParams.set_params({})
    G.design(equipment, network)
    ctx.count('designs_of_converted_topologies')
    asym = any(r['west'] for r in desc['links'])
    if asym or desc['eqpt']:
        ctx.nontrivial(P.digest(desc))
    ctx.cls(*(f'site:{t}' for t in m['types'].values()), 'links:asymmetric' if asym else 'links:symmetric',
            'eqpt:yes' if desc['eqpt'] else 'eqpt:no',
            *('declared-ILA-degree-not-2' for c, n in desc['nodes'].items()
              if n['type'] in ('ILA', '') and m['types'][c] == 'ROADM'))
    if not ctx.samples:
        ctx.sample({'kind': 'valid', 'sites': m['types'], 'links': [(r['a'], r['z'], bool(r['west'])) for r in desc['links']],
                    'eqpt_rows': [(e['a'], e['z']) for e in desc['eqpt']], 'elements': len(data['elements'])})
    ctx.dump.clear()


def run_invalid(case, ctx, tmp):
    rng = ctx.rng
    desc = gen_description(rng)
    rule = rng.choice(['duplicate-city', 'link-unknown-node', 'duplicate-link', 'duplicate-link-reversed',
                       'unreferenced-node', 'eqpt-unknown-node', 'eqpt-unknown-link', 'duplicate-eqpt', 'two-eqpt-for-ila'])
    d = deepcopy(desc)
    cities = d['cities']
    if rule == 'duplicate-city':
        c = rng.choice(cities)
        d['nodes'][c + '#dup'] = dict(d['nodes'][c])
    elif rule == 'link-unknown-node':
        d['links'].append({'a': cities[0], 'z': 'nowhere', 'east': dict(d['links'][0]['east']), 'west': {}})
    elif rule in ('duplicate-link', 'duplicate-link-reversed'):
        r = deepcopy(rng.choice(d['links']))
        if rule.endswith('reversed'):
            r['a'], r['z'] = r['z'], r['a']
        r['east']['cable'] = 'DUP'
        d['links'].append(r)
    elif rule == 'unreferenced-node':
        d['nodes']['lonely'] = dict(d['nodes'][cities[0]], city='lonely')
    elif rule == 'eqpt-unknown-node':
        d['eqpt'].append({'a': 'nowhere', 'z': cities[0], 'east': {}, 'west': {}})
    elif rule == 'eqpt-unknown-link':
        pairs = {(r['a'], r['z']) for r in d['links']} | {(r['z'], r['a']) for r in d['links']}
        cand = [(a, z) for a in cities for z in cities if a != z and (a, z) not in pairs]
        if not cand:
            return
        a, z = rng.choice(cand)
        d['eqpt'].append({'a': a, 'z': z, 'east': {}, 'west': {}})
    elif rule == 'duplicate-eqpt':
        if not d['eqpt']:
            r0 = d['links'][0]
            d['eqpt'].append({'a': r0['a'], 'z': r0['z'], 'east': {}, 'west': {}})
        d['eqpt'].append(deepcopy(d['eqpt'][0]))
    elif rule == 'two-eqpt-for-ila':
        m = expected_model(desc)
        ilas = [c for c, t in m['types'].items() if t == 'ILA']
        if not ilas:
            return
        c = rng.choice(ilas)
        nb = neighbours(c, d['links'])
        d['eqpt'] = [e for e in d['eqpt'] if e['a'] != c]
        d['eqpt'] += [{'a': c, 'z': nb[0], 'east': {}, 'west': {}}, {'a': c, 'z': nb[1], 'east': {}, 'west': {}}]
    if rule == 'duplicate-city':
        # same name twice in the sheet
        dup = d['nodes'].pop(next(k for k in d['nodes'] if k.endswith('#dup')))
        d['nodes']['__dup__'] = dup
    path = Path(tmp) / 'bad.xlsx'
    write_workbook(d, path)
    ctx.count('invalid_workbooks')
    ctx.dump.update({'rule': rule, 'description': d})
    try:
        data = xls_to_json_data(path)
    except NetworkTopologyError as e:
        ctx.cls(f'rejected:{rule}')
        ctx.nontrivial(('invalid', rule, P.digest(d)))
        if not ctx.samples:
            ctx.sample({'kind': 'invalid', 'rule': rule, 'error': str(e)[:160]})
        ctx.dump.clear()
        return
    ctx.violation('invalid-workbook-converted', f'workbook violating the rule "{rule}" was converted '
                  f'({len(data["elements"])} elements) instead of being rejected with a topology error')


def gen_services(rng, desc, types):
    roadms = [c for c, t in types.items() if t == 'ROADM']
    rows = []
    for i in range(rng.randint(1, 8)):
        a, z = rng.sample(roadms, 2)
        mode = rng.choice([None, 'mode 1', 'mode 1', 'mode 2'])
        path = None
        if rng.random() < 0.4 and len(roadms) > 2:
            mids = [c for c in roadms if c not in (a, z)]
            path = ' | '.join(rng.sample(mids, rng.randint(1, min(2, len(mids)))))
        rows.append({'id': rng.choice([i, f'srv{i}']), 'src': a, 'dst': z, 'trx': 'Voyager', 'mode': mode,
                     'spacing': 75 if mode == 'mode 2' else rng.choice([50, 62.5, 75]),
                     'power': rng.choice([None, 0, 1, -1.5]), 'nch': rng.choice([None, 40, 60]),
                     'disjoint': None, 'path': path, 'loose': rng.choice([None, 'yes', 'no', 'Yes']),
                     'bw': rng.choice([None, 100, 200, 150.5])})
    # routes that follow a real line of the workbook and name its intermediate sites whatever their type (ROADM, ILA,
    # FUSED): an ILA / FUSED entry stands for the element of that site that faces the next named site
    adj = {}
    for r in desc['links']:
        adj.setdefault(r['a'], set()).add(r['z'])
        adj.setdefault(r['z'], set()).add(r['a'])
    def line_between(a, z):
        prev, todo = {a: None}, [a]
        while todo and z not in prev:
            c = todo.pop(0)
            for n in sorted(adj.get(c, ())):
                if n not in prev:
                    prev[n] = c
                    todo.append(n)
        if z not in prev:
            return None
        line = [z]
        while prev[line[-1]] is not None:
            line.append(prev[line[-1]])
        return line[::-1]
    candidates = []
    for a in roadms:
        for z in roadms:
            if a != z:
                line = line_between(a, z)
                if line:
                    mids = line[1:-1]
                    while mids and types[mids[-1]] != 'ROADM':
                        mids.pop()      # (an ILA named right before the destination: the direction is not decidable)
                    if mids and any(types[c] != 'ROADM' for c in mids):
                        candidates.append((a, z, mids, line))
    ch = desc.get('chain')
    if ch and types[ch[1]] == 'ILA' and types[ch[2]] == 'FUSED' and all(types[c] == 'ROADM' for c in (ch[0], ch[3], ch[4])):
        # the forced line ROADM - ILA - FUSED - ROADM - ROADM: the first service names the ILA and the ROADM behind the
        # fused site, which stays unnamed (when the shortest site path between its ends is this line)
        line = line_between(ch[0], ch[4])
        if line == ch:
            rows[0].update(src=ch[0], dst=ch[4], path=f'{ch[1]} | {ch[3]}', line=line, _unnamed_fused=True)
    for row in rows[1:] if rows[0].get('_unnamed_fused') else rows:
        if candidates and rng.random() < 0.5:
            a, z, mids, line = rng.choice(candidates)
            if rng.random() < 0.5 and any(types[c] == 'FUSED' for c in mids) and any(types[c] != 'FUSED' for c in mids):
                # the fused sites of the line are not named: the ILA before one still faces it
                mids = [c for c in mids if types[c] != 'FUSED']
                while mids and types[mids[-1]] != 'ROADM':
                    mids.pop()
                if not mids:
                    continue
                row['_unnamed_fused'] = any(types[x] == 'ILA' and types[y] == 'FUSED' and x in mids
                                            for x, y in zip(line[:-1], line[1:]))
            row.update(src=a, dst=z, path=' | '.join(mids), line=line)
    # loose routes may name sites that do not exist: the documented behaviour is to skip them (a strict one is refused);
    # the names that follow must come out exactly as if the unknown one had not been written
    for row in rows:
        if row['path'] and row['loose'] in (None, 'yes', 'Yes') and rng.random() < 0.35:
            cells = row['path'].split(' | ')
            for _ in range(rng.choice([1, 1, 2])):
                cells.insert(rng.randint(0, len(cells) - 1), rng.choice(['Atlantis', 'Nowhere', 'site X']))
            row['path_cell'] = ' | '.join(cells)
    if len(rows) >= 2 and rng.random() < 0.6:
        rows[0]['disjoint'] = str(rows[1]['id'])
        if len(rows) >= 3 and rng.random() < 0.4:
            rows[0]['disjoint'] += f' | {rows[2]["id"]}'
    if len(rows) >= 3 and rng.random() < 0.5:
        # any row may name partners: chains (1 from 2, 2 from 3), mutual pairs (1 from 2, 2 from 1), rows that are
        # already a member of an earlier row's group and open their own
        for k in range(1, len(rows)):
            if rng.random() < 0.4:
                others = [r['id'] for j, r in enumerate(rows) if j != k]
                rows[k]['disjoint'] = ' | '.join(str(x) for x in rng.sample(others, rng.randint(1, min(2, len(others)))))
    return rows


def run_service(case, ctx, tmp):
    rng = ctx.rng
    desc = gen_description(rng, chain=rng.random() < 0.4)
    m = expected_model(desc)
    rows = gen_services(rng, desc, m['types'])
    path = Path(tmp) / 'net.xlsx'
    write_workbook(desc, path, services=rows)
    ctx.dump.update({'description': desc, 'services': rows})
    data = xls_to_json_data(path)
    equipment = G.make_equipment(G.eqpt_json())
    network = G.make_network(data, equipment)
    SimParams.set_params({})
    G.design(equipment, network)
    bidir = rng.random() < 0.5
    got = read_service_sheet(path, equipment, network, network_filename=path, bidir=bidir)
    if len(got['path-request']) != len(rows):
        ctx.violation('service-rows', f'{len(rows)} service rows gave {len(got["path-request"])} requests')
        return
    for row, req in zip(rows, got['path-request']):
        ctx.count('service_rows_checked')
        te = req['path-constraints']['te-bandwidth']
        exp = {'request-id': str(row['id']), 'source': f'trx {row["src"]}', 'destination': f'trx {row["dst"]}',
               'bidirectional': bidir}
        for k, v in exp.items():
            if req.get(k) != v:
                ctx.violation('service-field', f'row {row["id"]}: {k} = {req.get(k)!r}, expected {v!r}')
        exp_te = {'trx_type': row['trx'], 'trx_mode': row['mode'], 'spacing': row['spacing'] * 1e9,
                  'max-nb-of-channel': row['nch'],
                  'output-power': None if row['power'] is None else 10 ** (row['power'] / 10) * 1e-3,
                  'path_bandwidth': 0 if row['bw'] is None else row['bw'] * 1e9}
        for k, v in exp_te.items():
            g = te.get(k)
            ok = (g == v) if not isinstance(v, float) else (g is not None and abs(g - v) <= 1e-12 * max(abs(v), 1e-30))
            if not ok:
                ctx.violation('service-units', f'row {row["id"]}: {k} = {g!r}, the sheet gives {v!r}')
        route = req.get('explicit-route-objects', {}).get('route-object-include-exclude', [])
        exp_nodes = [f'roadm {c}' for c in row['path'].split(' | ')] if row['path'] else []
        exp_hop = 'LOOSE' if row['loose'] in (None, 'yes', 'Yes') else 'STRICT'
        if row.get('path_cell'):
            ctx.count('routes_with_unknown_loose_names')
        if row.get('_unnamed_fused'):
            ctx.count('routes_naming_an_ila_before_an_unnamed_fused_site')
        if row.get('line'):
            # structural oracle for routes naming ILA / FUSED sites: nothing dropped, ROADM entries by name, every
            # other entry an element of the network whose next fibre leaves that site towards the next site of the line
            ctx.count('line_routes_checked')
            ids = [o['num-unnum-hop']['node-id'] for o in route]
            cities = row['path'].split(' | ')
            byuid = {n.uid: n for n in network.nodes()}
            if len(ids) != len(cities):
                ctx.violation('service-route', f'row {row["id"]}: route {ids}, the sheet lists {cities} along the line '
                              f'{row["line"]} (types {[m["types"][c] for c in cities]})')
            else:
                for c, nid in zip(cities, ids):
                    nxt = row['line'][row['line'].index(c) + 1]
                    if m['types'][c] == 'ROADM':
                        ok = nid == f'roadm {c}'
                    else:
                        ctx.count('ila_route_entries')
                        cur, ok = byuid.get(nid), False
                        for _ in range(6):
                            if cur is None:
                                break
                            if type(cur).__name__ == 'Fiber':
                                ok = cur.uid.startswith(f'fiber ({c} {ARROW} {nxt})')
                                break
                            cur = next(iter(network.successors(cur)), None)
                    if not ok:
                        ctx.violation('service-route', f'row {row["id"]}: entry {c} ({m["types"][c]}) of the route '
                                      f'{cities} became {nid!r}, which is not the element of {c} facing {nxt}')
                        break
        elif [o['num-unnum-hop']['node-id'] for o in route] != exp_nodes:
            ctx.violation('service-route', f'row {row["id"]}: route {[o["num-unnum-hop"]["node-id"] for o in route]}, '
                          f'the sheet lists {exp_nodes}')
        elif any(o['num-unnum-hop']['hop-type'] != exp_hop for o in route) or \
                [o['index'] for o in route] != list(range(len(route))):
            ctx.violation('service-route', f'row {row["id"]}: hop types / indices {[(o["index"], o["num-unnum-hop"]["hop-type"]) for o in route]}, '
                          f'expected all {exp_hop} in order')
    exp_sync = [{'id': str(r['id']), 'members': [str(r['id'])] + r['disjoint'].split(' | ')} for r in rows if r['disjoint']]
    got_sync = [{'id': s['synchronization-id'], 'members': s['svec']['request-id-number']}
                for s in got.get('synchronization', [])]
    if got_sync != exp_sync:
        ctx.violation('service-disjunction', f'synchronisation groups {got_sync}, the sheet describes {exp_sync}')
    ctx.cls('service')
    ctx.nontrivial(('service', P.digest(rows), P.digest(desc)))
    if not ctx.samples:
        ctx.sample({'kind': 'service', 'rows': rows[:3], 'requests': len(rows)})
    if not ctx.violations:
        ctx.dump.clear()


def run_shipped(case, ctx, tmp):
    """Shipped .xls files through the xlrd code path vs the same cells saved as .xlsx."""
    import xlrd
    rng = ctx.rng
    files = [G.EXAMPLES / 'meshTopologyExampleV2.xls', G.EXAMPLES / 'CORONET_Global_Topology.xls',
             G.TESTDATA / 'testTopology.xls', G.TESTDATA / 'perdegreemeshTopologyExampleV2.xls',
             G.TESTDATA / 'testTopologyconvert.xls']
    f = rng.choice([x for x in files if x.exists()])
    book = xlrd.open_workbook(str(f))
    wb = openpyxl.Workbook()
    wb.remove(wb.active)
    for sh in book.sheets():
        ws = wb.create_sheet(sh.name)
        for r in range(sh.nrows):
            ws.append([None if c.ctype in (0, 6) or c.value == '' else c.value for c in sh.row(r)])
    out = Path(tmp) / (f.stem + '.xlsx')
    wb.save(out)
    a = xls_to_json_data(f)
    b = xls_to_json_data(out)
    ctx.count('xls_xlsx_differentials')
    if a != b:
        ea = {e['uid']: e for e in a['elements']}
        eb = {e['uid']: e for e in b['elements']}
        diff = [u for u in ea if ea[u] != eb.get(u)][:3]
        ctx.violation('xls-xlsx-differ', f'{f.name}: the .xls and the .xlsx code paths give different documents '
                      f'(first differing elements {diff}; connections equal: {a["connections"] == b["connections"]})',
                      {'xls': [ea[u] for u in diff[:1]], 'xlsx': [eb.get(u) for u in diff[:1]]})
    ctx.cls(f'shipped:{f.name}')
    ctx.nontrivial(('shipped', f.name))
    if not ctx.samples:
        ctx.sample({'kind': 'shipped', 'file': f.name, 'elements': len(a['elements'])})


def run_case(case, ctx):
    tmp = tempfile.mkdtemp(prefix='vf-c20-')
    try:
        {'valid': run_valid, 'invalid': run_invalid, 'service': run_service, 'shipped': run_shipped}[case['kind']](case, ctx, tmp)
    finally:
        shutil.rmtree(tmp, ignore_errors=True)
