"""C11 - every computed route is a real, loop-free, constraint-respecting shortest path.

Monitor: the paths returned by the real path computation for generated request batches are recorded and judged by an
independent exhaustive search on a ROADM-level model rebuilt from the graph edges (own enumeration, no networkx):
validity, include order, optimal total fibre length, STRICT / LOOSE fallback semantics, reverse path.
"""
from copy import deepcopy

from gnpy.core.elements import Roadm, Transceiver, Fiber
from gnpy.core.parameters import SimParams
from gnpy.tools.json_io import requests_from_json, disjunctions_from_json
from gnpy.topology.request import correct_json_route_list, compute_path_dsjctn, find_reversed_path
from gnpy.topology.spectrum_assignment import build_oms_list

from vf.gen import common as G, services as S
from vf.props import _prop_common as P

ID = 'C11'
RULE = ('generated meshes (3..6 ROADM sites, random link sets, 1..3 spans per direction with whole-kilometre, '
        'direction-asymmetric lengths, long fibres that get split) x all source/destination pairs x include lists of '
        'ROADMs and line elements (fibres, amplifiers), 0..4 entries, LOOSE/STRICT mixes, satisfiable or not (wrong '
        'order, element off every route). Each request is one observation. Non-trivial: a request whose constraint '
        'changes the optimum, is unsatisfiable, or that has >=2 candidate routes. Distinct: hash of (topology, '
        'request).')
ASSUMPTIONS = ['fibre lengths are whole kilometres so that optimality ties are exact (any optimum is accepted)',
               'include lists mixing an unsatisfiable LOOSE entry with satisfiable STRICT entries are not judged '
               '(the statement does not define that mix)', 'no parallel links between one ROADM pair']
REQUIRED_COUNTERS = {'requests_judged': 150, 'optimality_checks': 100, 'strict_unsatisfiable': 5, 'loose_fallback': 5,
                     'include_order_checks': 40, 'reverse_path_checks': 30, 'grouped_groups_judged': 40}
CASE_TIMEOUT = {'quick': 200, 'thorough': 400}


def plan(tier, seed):
    n = 900 if tier == 'quick' else 10000
    return [{'idx': i} for i in range(n)]


def build(rng, **kw):
    ej = G.eqpt_json()
    G.vary_span_si(rng, ej, allow_eol=False)
    tk = dict(n_sites=rng.randint(3, 6), max_spans=3, whole_km=True, long_fibers=rng.random() < 0.2, max_km=140)
    tk.update(kw)
    tj, tdesc = G.gen_topology(rng, **tk)
    if rng.random() < 0.3 and ej['Span'][0].get('power_mode', True):
        # Raman-amplified spans on some links (between two amplifiers of the topology file): a span is a span, whatever
        # its fibre type, when route lengths are compared
        typ = {e['uid']: e for e in tj['elements']}
        pred = {c['to_node']: c['from_node'] for c in tj['connections'] if typ[c['to_node']]['type'] == 'Fiber'}
        succ = {c['from_node']: c['to_node'] for c in tj['connections'] if typ[c['from_node']]['type'] == 'Fiber'}
        n = 0
        for e in tj['elements']:
            if e['type'] == 'Fiber' and typ[pred[e['uid']]]['type'] == 'Edfa' and \
                    typ[succ[e['uid']]]['type'] in ('Edfa', 'Fused') and rng.random() < 0.7 and \
                    not isinstance(e['params'].get('loss_coef'), dict) and 30 <= e['params']['length'] <= 120:
                rf = P.raman_fiber(rng, e['uid'], length=e['params']['length'])
                e.update(type='RamanFiber', operational=rf['operational'])
                e['params'].pop('lumped_losses', None)
                for k in ('con_in', 'con_out'):
                    if e['params'].get(k) is None:
                        e['params'][k] = 0.5
                up = typ[pred[e['uid']]]
                up.setdefault('operational', {})
                if up['operational'].get('delta_p') is None:
                    up['operational']['delta_p'] = 0        # (without it the design stops: listed finding of C08)
                if not up.get('type_variety'):
                    up['type_variety'] = 'std_medium_gain'
                n += 1
        tdesc['raman_spans'] = n
    equipment = G.make_equipment(ej)
    network = G.make_network(tj, equipment)
    SimParams.set_params({})
    G.design(equipment, network)
    oms_list = build_oms_list(network, equipment)
    return ej, tj, equipment, network, oms_list


def gen_includes(rng, model, src_site, dst_site):
    """Include list + hop types; built from a random route (satisfiable), then possibly spoiled."""
    k = rng.choice([0, 1, 1, 2, 2, 3, 4])
    if k == 0:
        return [], [], 'none'
    routes = model.simple_site_paths(src_site, dst_site)
    kind = rng.choice(['on-route', 'on-route', 'on-route', 'wrong-order', 'off-route', 'random', 'loop-chain'])
    if not routes:
        return [], [], 'none'
    if kind == 'loop-chain':
        # one line element per link of a walk src..dst that passes one ROADM twice: the links chain end to end
        # (which is what an "explicit route" looks like) but no loop-free path can cross them all
        r = list(rng.choice(routes))
        i = rng.randrange(len(r))
        back = [x for x in model.neighbours(r[i]) if (x, r[i]) in model.links and (r[i], x) in model.links]
        if back:
            x = rng.choice(back)
            walk = r[:i + 1] + [x, r[i]] + r[i + 1:]
            nodes = []
            for a, b in zip(walk[:-1], walk[1:]):
                els = [u for u in rng.choice(model.links[(a, b)])[0] if u in model.element_link]
                if els:
                    nodes.append(rng.choice(els))
            if len(set(nodes)) == len(nodes) and nodes:
                hops = [rng.choice(['STRICT', 'LOOSE']) for _ in nodes]
                if rng.random() < 0.4:
                    hops = [rng.choice(['STRICT', 'LOOSE'])] * len(nodes)
                return nodes, hops, kind
        kind = 'on-route'
    route = rng.choice(routes)
    uid_path, _ = model.expand(route)[0]
    pool_r = [u for u in uid_path[1:-1] if isinstance(model.nodes[u], Roadm)]
    pool_l = [u for u in uid_path if not isinstance(model.nodes[u], (Roadm, Transceiver))]
    pool = pool_r + pool_l if rng.random() < 0.6 else (pool_r or pool_l)
    if kind in ('on-route', 'wrong-order'):
        picks = sorted(rng.sample(range(len(pool)), min(k, len(pool)))) if pool else []
        nodes = [pool[i] for i in picks]
        # keep the path order
        nodes.sort(key=uid_path.index)
        if kind == 'wrong-order' and len(nodes) >= 2:
            nodes.reverse()
    elif kind == 'off-route':
        others = [u for u, n in model.nodes.items() if not isinstance(n, Transceiver) and u not in uid_path
                  and u not in (src_site, dst_site)]
        nodes = rng.sample(others, min(k, len(others))) if others else []
    else:
        allu = [u for u, n in model.nodes.items() if not isinstance(n, Transceiver) and u not in (src_site, dst_site)]
        nodes = rng.sample(allu, min(k, len(allu)))
    hops = [rng.choice(['STRICT', 'LOOSE', 'LOOSE']) for _ in nodes]
    if rng.random() < 0.3:
        hops = ['STRICT'] * len(nodes)
    elif rng.random() < 0.3:
        hops = ['LOOSE'] * len(nodes)
    return nodes, hops, kind


def feasible_paths(model, src, dst, includes):
    a, z = model.roadm_of[src], model.roadm_of[dst]
    out = []
    for route in model.simple_site_paths(a, z):
        for els, length in model.expand(route):
            p = [src] + els + [dst]
            if S.in_order(includes, p):
                out.append((p, length))
    return out


def explicit_shortcut(model, includes, uids):
    """Witness predicate of the listed finding: the OMS of the listed line elements taken in list order
    (duplicates removed) are exactly the links of the returned route, but inside an OMS the listed order is not the
    crossing order."""
    line = [u for u in includes if u in model.element_link]      # ROADM entries carry no OMS: the shortcut skips them
    if not line or any(u not in uids for u in includes):
        return False
    seq = []
    for u in line:
        a, b, _ = model.element_link[u]
        if (a, b) not in seq:
            seq.append((a, b))
    return seq == model.path_links(uids) and not S.in_order(includes, uids)


def check_valid_path(ctx, model, network, req_id, src, dst, path):
    uids = [n.uid for n in path]
    if not uids or uids[0] != src or uids[-1] != dst:
        ctx.violation('endpoints', f'request {req_id}: path does not run from {src} to {dst}: {uids[:3]}..{uids[-3:]}')
        return False
    if len(set(uids)) != len(uids):
        ctx.violation('loop', f'request {req_id}: an element is visited twice', {'path': uids})
        return False
    for a, b in zip(path[:-1], path[1:]):
        if b not in set(network.successors(a)):
            ctx.violation('no-such-link', f'request {req_id}: {a.uid} -> {b.uid} is not a link of the network')
            return False
    return True


def run_case(case, ctx):
    rng = ctx.rng
    ej, tj, equipment, network, oms_list = build(rng)
    model = S.SiteModel(network)
    trx = sorted(model.roadm_of)
    pairs = [(a, z) for a in trx for z in trx if a != z]
    rng.shuffle(pairs)
    reqs, meta = [], {}
    for i, (a, z) in enumerate(pairs[:10]):
        nodes, hops, kind = gen_includes(rng, model, model.roadm_of[a], model.roadm_of[z])
        # users also list the end points themselves: such entries are trivially met and are dropped silently
        if nodes and rng.random() < 0.2:
            nodes, hops = [a] + nodes, [rng.choice(['STRICT', 'LOOSE'])] + hops
            kind += '+src'
        if nodes and rng.random() < 0.15:
            nodes, hops = nodes + [z], hops + [rng.choice(['STRICT', 'LOOSE'])]
            kind += '+dst'
        if rng.random() < 0.12:
            # a LOOSE entry that names nothing usable (a typo, or another transceiver): it is skipped with a warning
            # and the other entries keep their meaning
            k = rng.randint(0, len(nodes))
            bad = rng.choice(['no such element', rng.choice([t for t in trx if t not in (a, z)] or ['nowhere'])])
            nodes, hops = nodes[:k] + [bad] + nodes[k:], hops[:k] + ['LOOSE'] + hops[k:]
            kind += '+unusable-loose'
        bidir = rng.random() < 0.4
        reqs.append(S.request(i, a, z, nodes=nodes, hops=hops, bidir=bidir, trx_mode='mode 1'))
        meta[str(i)] = {'src': a, 'dst': z, 'nodes': nodes, 'hops': hops, 'kind': kind, 'bidir': bidir}
    data = {'path-request': reqs}
    ctx.dump.update({'topology': tj, 'services': data})
    rqs = requests_from_json(deepcopy(data), equipment)
    rqs = correct_json_route_list(network, rqs)
    paths = compute_path_dsjctn(network, equipment, rqs, [])
    for rq, path in zip(rqs, paths):
        m = meta[rq.request_id]
        src, dst, includes, hops = m['src'], m['dst'], m['nodes'], m['hops']
        usable = set(model.nodes) - set(model.roadm_of)
        if any(u not in usable and u not in (src, dst) for u in includes):
            keep = [i for i, u in enumerate(includes) if u in usable or u in (src, dst)]
            includes, hops = [includes[i] for i in keep], [hops[i] for i in keep]
            ctx.count('unusable_loose_entries')
        if includes and (includes[0] == src or includes[-1] == dst):
            # the end points are on every path: only the other entries (with their own hop types) are constraints
            keep = [i for i, u in enumerate(includes) if not ((i == 0 and u == src) or (i == len(includes) - 1 and u == dst))]
            includes, hops = [includes[i] for i in keep], [hops[i] for i in keep]
            ctx.count('endpoint_entries_in_list')
        ctx.count('requests_judged')
        feas = feasible_paths(model, src, dst, includes)
        free = feasible_paths(model, src, dst, [])
        best_free = min(l for _, l in free)
        blocked = getattr(rq, 'blocking_reason', None)
        uids = [n.uid for n in path]
        if includes:
            ctx.count('include_order_checks')
        if feas:
            best = min(l for _, l in feas)
            if not path:
                ctx.violation('blocked-though-satisfiable', f'request {rq.request_id} ({src} -> {dst}, include '
                              f'{includes} {hops}) blocked ({blocked}) although {len(feas)} satisfying routes exist')
                continue
            if not check_valid_path(ctx, model, network, rq.request_id, src, dst, path):
                continue
            if not S.in_order(includes, uids):
                ctx.violation('include-not-respected', f'request {rq.request_id}: include list {includes} not crossed in '
                              f'order', {'path': uids})
                continue
            got = model.fibre_length(uids)
            ctx.count('optimality_checks')
            if abs(got - best) > 1e-6:
                ctx.violation('not-shortest', f'request {rq.request_id} ({src} -> {dst}, include {includes}): returned '
                              f'route has {got / 1e3:.3f} km of fibre, the shortest satisfying route {best / 1e3:.3f} km',
                              {'path_sites': model.path_sites(uids)})
            if best > best_free + 1e-6 or len(feas) >= 2:
                ctx.nontrivial((P.digest(tj), src, dst, includes, hops))
            ctx.cls('constraint:satisfiable' if includes else 'constraint:none')
        else:
            strict = 'STRICT' in hops
            if strict:
                strict_only = [n for n, h in zip(includes, hops) if h == 'STRICT']
                if len(strict_only) < len(includes) and feasible_paths(model, src, dst, strict_only):
                    ctx.skip('unsatisfiable-loose-with-satisfiable-strict')
                    continue
                ctx.count('strict_unsatisfiable')
                if path or blocked != 'NO_PATH_WITH_CONSTRAINT':
                    ctx.violation('strict-not-blocked', f'request {rq.request_id}: STRICT include {includes} cannot be '
                                  f'met but the request was not blocked with the no-path reason (got '
                                  f'{blocked}, {len(path)} elements)', {'path_sites': model.path_sites(uids)},
                                  mechanism='explicit-route-ignores-order-inside-oms'
                                  if explicit_shortcut(model, includes, uids) else None)
                ctx.cls('constraint:strict-unsatisfiable')
            else:
                ctx.count('loose_fallback')
                if not path:
                    ctx.violation('loose-blocked', f'request {rq.request_id}: only LOOSE includes {includes} cannot be '
                                  f'met, the request must fall back to the unconstrained route (blocked: {blocked})')
                    continue
                if not check_valid_path(ctx, model, network, rq.request_id, src, dst, path):
                    continue
                got = model.fibre_length(uids)
                ctx.count('optimality_checks')
                if abs(got - best_free) > 1e-6:
                    ctx.violation('loose-fallback-not-shortest', f'request {rq.request_id}: fallback route has '
                                  f'{got / 1e3:.3f} km, the unconstrained optimum {best_free / 1e3:.3f} km',
                                  mechanism='explicit-route-ignores-order-inside-oms'
                                  if explicit_shortcut(model, includes, uids) else None)
                ctx.cls('constraint:loose-dropped')
            ctx.nontrivial((P.digest(tj), src, dst, includes, hops))
        if path and m['bidir']:
            rev = find_reversed_path(path)
            ctx.count('reverse_path_checks')
            ruids = [n.uid for n in rev]
            if model.path_sites(ruids) != list(reversed(model.path_sites(uids))) or ruids[0] != dst or ruids[-1] != src:
                ctx.violation('reverse-path', f'request {rq.request_id}: reverse path visits {model.path_sites(ruids)}, '
                              f'forward {model.path_sites(uids)}')
            elif not check_valid_path(ctx, model, network, rq.request_id + ' (reverse)', dst, src, rev):
                pass
        if not ctx.samples and path:
            ctx.sample({'request': m, 'route_sites': model.path_sites(uids), 'fibre_km': model.fibre_length(uids) / 1e3,
                        'satisfying_routes': len(feas), 'blocked': blocked})
        if any(v['mechanism'] is None for v in ctx.violations):
            return
    if not ctx.violations:
        grouped_batches(ctx, rng, ej, tj, equipment, network, model)
    if not ctx.violations:
        ctx.dump.clear()


class _RouteClausesOnly:
    """Case context seen by the group workload of C12 when it runs for C11: only what C11 states about a route (real,
    loop-free, STRICT entries crossed) is kept; link sharing inside a group is C12's subject."""
    KEEP = ('strict-not-respected', 'endpoints', 'loop', 'no-such-link')

    def __init__(self, ctx):
        self._ctx = ctx

    def violation(self, monitor, msg, witness=None, mechanism=None):
        if monitor in self.KEEP:
            self._ctx.violation('grouped:' + monitor, msg, witness, mechanism)

    def count(self, name, n=1):
        self._ctx.count('grouped_' + name, n)

    def nontrivial(self, fp):
        pass

    def sample(self, obj):
        pass

    def __getattr__(self, name):
        return getattr(self._ctx, name)


def grouped_batches(ctx, rng, ej, tj, equipment, network, model):
    """Requests that belong to a synchronisation group are routed by another part of the code: their routes must be
    real, loop-free and cross their STRICT entries as well (optimality is not claimed for them)."""
    from vf.props import c12
    proxy = _RouteClausesOnly(ctx)
    for b in range(2):
        c12.run_batch(proxy, rng, ej, tj, equipment, network, model, b)
        if ctx.violations:
            return
