"""C02 - signal quality never improves along a path; passive elements leave it unchanged.

Monitor: monotonicity checker over the per-element snapshots of every propagated path, per channel (matched by
frequency), plus bit-identity of the three shares across ROADMs, fused elements and every attenuation/gain
operation, plus a differential run of each fibre with a different output connector loss.
"""
from copy import deepcopy

import numpy as np

from gnpy.core.info import SpectralInformation

from vf import attach, workload as W
from vf.props import _prop_common as P
from vf import stock

ID = 'C02'
RULE = ('generated designed networks (single band, per-degree policies, multiband shipped and generated, OpenROADM, '
        'GGN methods, Raman on/off) x generated spectra x routes; every element crossing is one observation. '
        'Non-trivial: a propagation crossing >=1 amplifier, >=1 fibre and >=1 ROADM with >=2 channels. Distinct: '
        'hash of (topology, route, spectrum).')
ASSUMPTIONS = ['monotonicity tolerance 1e-12 relative on the inverse ratios; "unchanged" for amplifier SNR_NLI and '
               'fibre OSNR_ASE means 1e-12 relative, for passive elements and attenuations bit-identical',
               'Raman fibres (which add both ASE and NLI) are only required to be non-improving']
REQUIRED_COUNTERS = {'stock_tests_run': 5, 'stock_element_events': 500, 'element_events': 60, 'passive_identity_checks': 20, 'amplifier_checks': 20, 'fiber_checks': 20,
                     'attenuation_ops': 100, 'con_out_differentials': 5, 'raman_pump_order_runs': 2}
CASE_TIMEOUT = {'quick': 400, 'thorough': 1800}


def plan(tier, seed):
    n = 192 if tier == 'quick' else 3000
    cases = [{'idx': i, 'kind': 'net', 'flavour': P.flavour(i)} for i in range(n)]
    # the repository's own tests as one more workload, with the monitors on
    return cases + stock.stock_cases(tier, n, ID)


def inv(snap):
    """Inverse GSNR, OSNR_ASE, SNR_NLI (finite also when a noise share is zero)."""
    with np.errstate(all='ignore'):
        return (snap.ar + snap.nr) / snap.sr, snap.ar / snap.sr, snap.nr / snap.sr


def si_from_snap(s):
    return SpectralInformation(frequency=s.frequency.copy(), baud_rate=s.baud_rate.copy(),
                               slot_width=s.slot_width.copy(), pch=s.pch.copy(), signal_ratio=s.sr.copy(),
                               ase_ratio=s.ar.copy(), nli_ratio=s.nr.copy(), roll_off=s.roll_off.copy(),
                               chromatic_dispersion=s.cd.copy(), pmd=s.pmd.copy(), pdl=s.pdl.copy(),
                               latency=s.latency.copy(), delta_pdb_per_channel=s.delta_pdb.copy(),
                               tx_osnr=s.tx_osnr.copy(), tx_power=s.tx_power.copy(), label=s.label.copy())


def check_event(ctx, e):
    b, a, typ = e['before'], e['after'], e['type']
    if a is None:
        return
    ctx.count('element_events')
    where = f'{typ} {e["uid"]}'
    # match channels by frequency (amplifiers drop out-of-band channels, nothing may appear)
    idx = {f: i for i, f in enumerate(b.frequency.tolist())}
    try:
        sel = np.array([idx[f] for f in a.frequency.tolist()], dtype=int)
    except KeyError:
        ctx.violation('channel-appeared', f'{where}: a channel left the element that did not enter it',
                      {'before': b.brief(), 'after': a.brief()})
        return
    ib = [x[sel] for x in inv(b)]
    ia = inv(a)
    names = ('GSNR', 'OSNR_ASE', 'SNR_NLI')
    for name, xb, xa in zip(names, ib, ia):
        bad = xa < xb * (1 - 1e-12) - 1e-300
        if np.any(bad) or not np.all(np.isfinite(xa)):
            k = int(np.argmax(bad)) if np.any(bad) else 0
            ctx.violation('quality-improved', f'{where}: {name} of channel {a.frequency[k]:.6e} Hz improved: '
                          f'1/{name} {xb[k]:.6e} -> {xa[k]:.6e}', {'before': b.brief(), 'after': a.brief()},
                          mechanism=None)
            return
    if typ in ('Roadm', 'Fused', 'Transceiver'):
        ctx.count('passive_identity_checks')
        if not (np.array_equal(a.sr, b.sr[sel]) and np.array_equal(a.ar, b.ar[sel]) and np.array_equal(a.nr, b.nr[sel])) \
                or a.n != b.n:
            ctx.violation('passive-changed-quality', f'{where}: a passive element changed a share',
                          {'before': b.brief(), 'after': a.brief()})
    elif typ in ('Edfa', 'Multiband_amplifier'):
        ctx.count('amplifier_checks')
        if not np.all(np.abs(ia[2] - ib[2]) <= 1e-12 * np.maximum(ia[2], ib[2]) + 1e-300):
            ctx.violation('amplifier-changed-snr-nli', f'{where}: amplifier changed SNR_NLI',
                          {'before': b.brief(), 'after': a.brief()})
        if typ == 'Edfa' and np.all(ia[1] <= ib[1]) and a.n and not np.all(np.isneginf(e['post']['nf'])):
            ctx.violation('amplifier-added-no-ase', f'{where}: amplifier with finite NF added no ASE at all',
                          {'before': b.brief(), 'after': a.brief(), 'nf': e['post']['nf']})
    elif typ == 'Fiber':
        ctx.count('fiber_checks')
        if not np.all(np.abs(ia[1] - ib[1]) <= 1e-12 * np.maximum(ia[1], ib[1]) + 1e-300):
            ctx.violation('fiber-changed-osnr-ase', f'{where}: non-Raman fibre changed OSNR_ASE',
                          {'before': b.brief(), 'after': a.brief()})
    elif typ == 'RamanFiber':
        ctx.count('raman_fiber_checks')


def check_ops(ctx, ops):
    for o in ops:
        if o['op'] in ('apply_attenuation_lin', 'apply_gain_lin'):
            ctx.count('attenuation_ops')
            b, a = o['before'], o['after']
            if not (np.array_equal(a.sr, b.sr) and np.array_equal(a.ar, b.ar) and np.array_equal(a.nr, b.nr)):
                ctx.violation('loss-changed-quality', f'{o["op"]} (connector/padding/VOA/ROADM loss) changed a share',
                              {'before': b.brief(), 'after': a.brief()})


def con_out_differential(ctx, e):
    """The same fibre with another output connector loss must give identical shares."""
    el = e['el']
    if e['type'] != 'Fiber' or e['after'] is None:
        return
    el1, el2 = deepcopy(el), deepcopy(el)
    el2.params.con_out = (el2.params.con_out or 0) + 1.37
    s1 = el1(si_from_snap(e['before']))
    s2 = el2(si_from_snap(e['before']))
    ctx.count('con_out_differentials')
    if not (np.array_equal(s1._signal_ratio, s2._signal_ratio) and np.array_equal(s1._ase_ratio, s2._ase_ratio)
            and np.array_equal(s1._nli_ratio, s2._nli_ratio)):
        ctx.violation('con-out-changes-quality', f'Fiber {el.uid}: output connector loss changes the shares',
                      {'r1': s1._nli_ratio[:6], 'r2': s2._nli_ratio[:6]})
    elif not np.allclose(s1.pch / s2.pch, 10 ** 0.137, rtol=1e-12):
        ctx.violation('con-out-not-applied', f'Fiber {el.uid}: output connector loss not applied to the power')
    # and it must reproduce the recorded crossing
    if not np.allclose(s1._nli_ratio, e['after'].nr, rtol=1e-12, atol=0):
        ctx.violation('fiber-not-repeatable', f'Fiber {el.uid}: re-running the crossing from its recorded input gives '
                      'another result')


def raman_single_pump_differential(ctx, e):
    """Every pump of a Raman span taken alone: re-run the crossing from the recorded input with that pump only.
    The noise of one pump is then not hidden behind the noise of the others: no channel may improve."""
    el = e['el']
    if e['after'] is None or len(getattr(el, 'raman_pumps', ())) == 0:
        return
    for pump in el.raman_pumps:
        el1 = deepcopy(el)
        el1.raman_pumps = (pump,)
        out = attach.Snap(el1(si_from_snap(e['before'])))
        ctx.count('raman_single_pump_runs')
        b = e['before']
        idx = {f: i for i, f in enumerate(b.frequency.tolist())}
        sel = np.array([idx[f] for f in out.frequency.tolist()], dtype=int)
        for name, xb, xa in zip(('GSNR', 'OSNR_ASE', 'SNR_NLI'), [x[sel] for x in inv(b)], inv(out)):
            bad = xa < xb * (1 - 1e-12) - 1e-300
            if np.any(bad) or not np.all(np.isfinite(xa)):
                k = int(np.argmax(bad)) if np.any(bad) else 0
                ctx.violation('quality-improved', f'RamanFiber {el.uid} with the single pump {pump.frequency:.4e} Hz '
                              f'({pump.propagation_direction}, {pump.power:.3f} W): {name} of channel '
                              f'{out.frequency[k]:.6e} Hz improved: 1/{name} {xb[k]:.6e} -> {xa[k]:.6e}',
                              {'before': b.brief(), 'after': out.brief()})
                return


def raman_pump_order_differential(ctx, e):
    """The pumps of a Raman span are a set: the same crossing with the pump list reversed gives the same channels.  (A
    noise term attributed to the wrong pump would still look like "more noise" to the monotonicity check.)"""
    el = e['el']
    pumps = tuple(getattr(el, 'raman_pumps', ()))
    if e['after'] is None or len(pumps) < 2:
        return
    el1 = deepcopy(el)
    el1.raman_pumps = tuple(reversed(pumps))
    out = attach.Snap(el1(si_from_snap(e['before'])))
    ref = attach.Snap(deepcopy(el)(si_from_snap(e['before'])))
    ctx.count('raman_pump_order_runs')
    for name, a, b in (('total power', ref.pch, out.pch), ('ASE power', ref.pch * ref.ar, out.pch * out.ar),
                       ('NLI power', ref.pch * ref.nr, out.pch * out.nr)):
        if a.shape != b.shape or np.any(np.abs(a - b) > 1e-9 * np.maximum(np.abs(a), np.abs(b)) + 1e-30):
            k = int(np.argmax(np.abs(a - b)))
            ctx.violation('raman-pump-order', f'RamanFiber {el.uid}: {name} of channel {ref.frequency[k]:.6e} Hz depends on '
                          f'the order in which the pumps are listed: {a[k]:.6e} W vs {b[k]:.6e} W with the list reversed',
                          {'pumps': [(p.frequency, p.power, p.propagation_direction) for p in pumps]})
            return


def run_case(case, ctx):
    if case['kind'] == 'stock':
        return stock.run_stock_case(case, ctx, ID)
    rng = ctx.rng
    scen = P.build_scenario(rng, case['flavour'], ctx)
    if scen is None:
        return
    for job in scen['jobs']:
        try:
            p, si, events, ops = W.propagate_copy(job['path'], job['req'], scen['equipment'], record_ops=True)
        except W.NoChannelInBand:
            ctx.skip('no-channel-in-band')
            continue
        for e in events:
            check_event(ctx, e)
        check_ops(ctx, ops)
        for e in events:
            if e['type'] == 'RamanFiber' and scen['raman'] and not ctx.violations:
                raman_single_pump_differential(ctx, e)
                if not ctx.violations:
                    raman_pump_order_differential(ctx, e)
        fibers = [e for e in events if e['type'] == 'Fiber']
        if fibers and not scen['raman']:
            con_out_differential(ctx, fibers[rng.randrange(len(fibers))])
        n_amp = sum(1 for e in events if e['type'] in ('Edfa', 'Multiband_amplifier') and e['depth'] == 0)
        n_fib = sum(1 for e in events if e['type'] in ('Fiber', 'RamanFiber'))
        n_roadm = sum(1 for e in events if e['type'] == 'Roadm')
        ctx.cls(f'net:{case["flavour"]}', f'nli:{scen["nli_method"]}', f'raman:{scen["raman"]}',
                *(f'el:{e["type"]}' for e in events))
        if n_amp and n_fib and n_roadm and si.number_of_channels >= 2:
            ctx.nontrivial(('net', job['fp']))
        if not ctx.samples:
            ctx.sample({'flavour': case['flavour'], 'route': [e.uid for e in job['path']][:40],
                        'channels': int(si.number_of_channels), 'spectrum': job['spec_desc'],
                        'elements_observed': len(events)})
        if ctx.violations:
            ctx.dump.update(scen['dump'])
            return
