"""C18 - input documents mean the same thing in legacy and YANG form.

Monitors: idempotence checker over recorded conversions (legacy -> YANG -> legacy -> YANG ...), leaf-by-leaf
comparison of the original with the round-tripped document against the declared fraction digits, loader
equivalence (network export / equipment attributes / request fields / spectrum / simulation parameters built from
either form), alias checker for equipment declared under several names.  libyang validation of the YANG form is the
gate for "valid document".
"""
import json
import math
from copy import deepcopy

import numpy as np

from gnpy.core.parameters import SimParams
from gnpy.tools.convert_legacy_yang import legacy_to_yang, yang_to_legacy
from gnpy.tools.yang_convert_utils import load_data
from gnpy.tools.json_io import (network_from_json, network_to_json, requests_from_json, disjunctions_from_json,
                                _spectrum_from_json, _equipment_from_json)
from gnpy.tools.default_edfa_config import DEFAULT_EXTRA_CONFIG
from gnpy.yang.precision_dict import PRECISION_DICT

from vf.gen import common as G, services as S, eqpt as GE
from vf.ref.yangdigits import declared_digits
from vf.props import _prop_common as P

ID = 'C18'
RULE = ('generated documents of the five kinds: topologies (every element type, per-degree targets of the three '
        'policies, per-degree impairments, design bands, restrictions, per-frequency loss, lumped losses, Raman pumps, '
        'multiband amplifiers, nulls and absent optional fields, values with exactly and with more digits than '
        'declared), equipment libraries (shipped ones with perturbed values, synthetic amplifiers, aliases for '
        'amplifiers and transceivers, penalties, Raman efficiency), service files (routes, groups, nulls, slots), '
        'spectrum partitions and simulation parameters. Each document is one observation. Non-trivial: a document with '
        'at least one value carrying more digits than declared or one optional structure (per-degree dict, band list, '
        'per-frequency list, alias). Distinct: hash of the document.')
ASSUMPTIONS = ['"valid document" = the YANG form passes libyang validation (otherwise the document is counted as rejected)',
               'value preserved = within 0.5 x 10^-digits of the declared fraction digits of its leaf',
               'loader equivalence compares built objects to the same precision; propagated GSNR to 1e-3 dB']
REQUIRED_COUNTERS = {'documents': 100, 'idempotence_checks': 100, 'leaf_comparisons': 2000, 'loader_equivalence_checks': 60,
                     'alias_checks': 10, 'values_with_extra_digits': 100}
CASE_TIMEOUT = {'quick': 300, 'thorough': 600}
POL = ('target_pch_out_db', 'target_psd_out_mWperGHz', 'target_out_mWperSlotWidth')


def plan(tier, seed):
    n = 240 if tier == 'quick' else 8000
    kinds = ['topology', 'topology', 'equipment', 'services', 'topology', 'spectrum', 'sim', 'alias']
    cases = [{'idx': i, 'kind': kinds[i % len(kinds)]} for i in range(n)]
    # dedicated cases that reproduce a listed finding (Raman efficiency of a fibre type through the YANG form)
    return cases + [{'idx': n, 'kind': 'kf-raman-efficiency'}, {'idx': n + 1, 'kind': 'kf-raman-efficiency'}]


def digits_for(key):
    """Declared fraction digits of a leaf: from the YANG models; the conversion table only for names the models
    do not declare as decimals."""
    d = declared_digits()
    if key in d:
        return d[key]
    return PRECISION_DICT.get(key, 2)


def noisy(rng, v, key):
    """Adds digits beyond the declared precision (the conversion must round, not corrupt)."""
    d = digits_for(key)
    if d <= 0 or not isinstance(v, (int, float)) or isinstance(v, bool):
        return v
    return float(v) + rng.choice([0.31, -0.27, 0.049]) * 10 ** (-d)


# ------------------------------------------------------------------------------------------------ comparison

class Cmp:
    def __init__(self, ctx, what, rel=0.0, derived=None):
        self.ctx, self.what = ctx, what
        # derived(path) -> number of converted leaves a loader attribute is computed from (a dual-stage amplifier's gain
        # and power figures are sums of two rounded values: twice the half unit)
        self.derived = derived
        self.rel = rel      # objects built by the loaders: attribute names are not leaf names, allow a relative slack
        self.n = 0
        self.first = None
        self.extra_digits = 0
        self.extra_keys = []

    def fail(self, path, a, b, why):
        if self.first is None:
            self.first = {'path': path, 'original': a, 'round_trip': b, 'why': why}

    def walk(self, a, b, path, key=None):
        if isinstance(a, dict) and isinstance(b, dict):
            for k in a:
                if k not in b:
                    if a[k] in (None, [], {}):
                        continue
                    self.fail(path + [k], a[k], '<absent>', 'key lost')
                    continue
                self.walk(a[k], b[k], path + [k], k)
            for k in b:
                if k not in a:
                    self.extra_keys.append(('/'.join(map(str, path + [k])), b[k]))
            return
        if isinstance(a, list) and isinstance(b, list):
            if len(a) != len(b):
                self.fail(path, f'len {len(a)}', f'len {len(b)}', 'list length')
                return
            for i, (x, y) in enumerate(zip(a, b)):
                self.walk(x, y, path + [i], key)
            return
        self.n += 1
        if isinstance(a, bool) or isinstance(b, bool) or a is None or b is None or isinstance(a, str) or isinstance(b, str):
            if a != b and not (a in (None, '') and b in (None, '')):
                self.fail(path, a, b, 'value')
            return
        if isinstance(a, (int, float)) and isinstance(b, (int, float)):
            d = digits_for(key)
            if d < 0:
                tol = 0
            else:
                tol = 0.5 * 10 ** (-d) * (1 + 1e-9) + abs(a) * 4e-16
                if self.derived:
                    tol *= self.derived(path)
            if abs(a * 10 ** max(d, 0) - round(a * 10 ** max(d, 0))) > 1e-6:
                self.extra_digits += 1
            if abs(a - b) > tol and abs(a - b) > self.rel * max(abs(a), abs(b)):
                self.fail(path, a, b, f'differs by more than half a unit of the {d} declared digits')
            return
        if type(a) != type(b):
            self.fail(path, a, b, 'type')


def shuffle_members(rng, o, inside=False):
    """The same JSON document with the members of the objects held in keyed lists (lumped losses, Raman pumps, design
    bands) written in another order: the order of the members of a JSON object carries no meaning.  (Only there: the
    validation library insists on the key coming first and the converters re-order these lists for it; for the element
    and connection lists themselves every shipped file writes the key first.)"""
    if isinstance(o, dict):
        ks = list(o)
        if inside:
            rng.shuffle(ks)
        return {k: shuffle_members(rng, o[k], k in ('lumped_losses', 'raman_pumps', 'design_bands',
                                                     'per_degree_design_bands') or (inside and isinstance(o[k], (dict, list))))
                for k in ks}
    if isinstance(o, list):
        return [shuffle_members(rng, x, inside) for x in o]
    return o


def roundtrip(ctx, doc, kind, accepted_by_loader=False):
    """Returns (yang, legacy2) or None when the document is not valid YANG.  A document that the real legacy loader
    accepted (accepted_by_loader) and that cannot be brought to the YANG form is a violation, not a rejected input."""
    try:
        y = legacy_to_yang(deepcopy(doc))
        load_data(json.dumps(y))
    except Exception as e:  # noqa
        if accepted_by_loader:
            ctx.violation('accepted-document-not-convertible', f'{kind}: the loader builds a network from this legacy '
                          f'document but its YANG form is not valid: {type(e).__name__}: {str(e)[:300]}')
        else:
            ctx.reject(f'{kind}: not valid YANG: {type(e).__name__}: {str(e)[:160]}')
        return None
    l2 = yang_to_legacy(deepcopy(y))
    ctx.count('documents')
    y2 = legacy_to_yang(deepcopy(l2))
    l3 = yang_to_legacy(deepcopy(y2))
    ctx.count('idempotence_checks')
    if y2 != y:
        c = Cmp(ctx, kind)
        c.walk(y, y2, [])
        ctx.violation('not-idempotent', f'{kind}: legacy->yang->legacy->yang differs from legacy->yang: {c.first}')
    elif l3 != l2:
        c = Cmp(ctx, kind)
        c.walk(l2, l3, [])
        ctx.violation('not-idempotent', f'{kind}: yang->legacy is not stable under a second round trip: {c.first}')
    return y, l2


def qualify_identities(y, module, leaves):
    """Copy of a YANG-form document in which the values of the identityref leaves carry the module name."""
    n = [0]

    def walk(o):
        if isinstance(o, dict):
            out = {}
            for k, v in o.items():
                kk = k.split(':')[-1]
                if kk in leaves and isinstance(v, str) and ':' not in v:
                    out[k] = f'{module}:{v}'
                    n[0] += 1
                else:
                    out[k] = walk(v)
            return out
        if isinstance(o, list):
            return [walk(x) for x in o]
        return o
    out = walk(deepcopy(y))
    return out if n[0] else None


def compare_docs(ctx, doc, l2, kind, allowed_extra=()):
    c = Cmp(ctx, kind)
    c.walk(doc, l2, [])
    ctx.count('leaf_comparisons', c.n)
    ctx.count('values_with_extra_digits', c.extra_digits)
    if c.first:
        ctx.violation('value-not-preserved', f'{kind}: {c.first}')
    bad = [(p, v) for p, v in c.extra_keys if not any(p.endswith(s) for s in allowed_extra) and v not in (None, [], {})]
    if bad:
        ctx.violation('round-trip-adds-content', f'{kind}: the round trip added {bad[:3]}')
    return c


# ------------------------------------------------------------------------------------------------ generators

MIXED = [0]


def gen_topology_doc(rng):
    flavour = rng.choice(['mesh', 'mesh', 'raman', 'multiband'])
    if flavour == 'raman':
        tj = P.raman_topology(rng)
        ename = 'eqpt_config.json'
    elif flavour == 'multiband':
        def rp(r, s):
            return {'design_bands': deepcopy(P.MB_BANDS)}
        tj, _ = G.gen_topology(rng, max_sites=3, max_spans=2, user_amps=False, fused=False, roadm_params=rp)
        P.multibandify(tj, rng)
        # stated per-band settings on some of them
        for e in tj['elements']:
            if e['type'] == 'Multiband_amplifier' and rng.random() < 0.5:
                vs = {'std_low_gain_multiband_bis': ['std_low_gain_bis', 'std_low_gain_L'],
                      'std_medium_gain_multiband': ['std_medium_gain_C', 'std_medium_gain_L'],
                      'std_low_gain_multiband': ['std_low_gain', 'std_low_gain_L']}[e['type_variety']]
                e['amplifiers'] = [{'type_variety': v, 'operational': {'gain_target': G.rnd(rng, 10, 20, 3),
                                                                        'delta_p': G.pick(rng, [None, 1.0, 0]),
                                                                        'tilt_target': G.pick(rng, [0, 0.5]),
                                                                        'out_voa': G.pick(rng, [None, 1.0])}}
                                   for v in vs]
        ename = 'eqpt_config_multiband.json'
    else:
        def rp(r, s):
            p = {}
            if r.random() < 0.4:
                k = r.choice(POL)
                p[k] = {POL[0]: -19.5, POL[1]: 3.125e-4, POL[2]: 2.2e-4}[k]
            if r.random() < 0.3:
                p['restrictions'] = {'preamp_variety_list': ['std_low_gain'], 'booster_variety_list': []}
            if r.random() < 0.3:
                p['design_bands'] = [{'f_min': 191.3e12, 'f_max': 195.1e12}]
            return p
        tj, _ = G.gen_topology(rng, max_sites=4, max_spans=3, roadm_params=rp, per_degree=True, lumped=True,
                               per_freq_loss=True, roadm_variety=rng.choice([None, None, 'detailed_impairments']),
                               dispersion_variants=rng.random() < 0.5)
        for e in tj['elements']:
            # element-level values of the other fibre parameters the topology model declares
            if e['type'] == 'Fiber' and rng.random() < 0.2:
                if rng.random() < 0.5:
                    e['params']['gamma'] = rng.choice([0.00127, 0.0011, 0.0016])
                else:
                    e['params']['effective_area'] = rng.choice([83e-12, 72e-12, 125e-12])
                if rng.random() < 0.5:
                    e['params'][rng.choice(['ref_frequency', 'ref_wavelength'])] = None
                    k = 'ref_frequency' if 'ref_frequency' in e['params'] else 'ref_wavelength'
                    e['params'][k] = 193.5e12 if k == 'ref_frequency' else 1550e-9
        for e in tj['elements']:
            # a top-level variety list of an Edfa cannot be expressed in the YANG model: not a valid document
            if 'variety_list' in e:
                e.pop('variety_list')
                e['type_variety'] = ''
        ename = 'eqpt_config.json'
    # per-degree entries must name an element of the document (leafref in the YANG model)
    uids = {e['uid'] for e in tj['elements']}
    for e in tj['elements']:
        for k in ('per_degree_pch_out_db', 'per_degree_psd_out_mWperGHz', 'per_degree_psd_out_mWperSlotWidth'):
            if k in e.get('params', {}):
                e['params'][k] = {d: v for d, v in e['params'][k].items() if d in uids}
                if not e['params'][k]:
                    e['params'].pop(k)
    # design bands stated per degree, with or without the optional spacing
    if flavour == 'mesh':
        for e in tj['elements']:
            if e['type'] != 'Roadm' or rng.random() < 0.65:
                continue
            succ = [c['to_node'] for c in tj['connections'] if c['from_node'] == e['uid']
                    and not c['to_node'].startswith('trx')]
            if not succ:
                continue
            band = {'f_min': rng.choice([191.3e12, 191.4e12]), 'f_max': rng.choice([195.1e12, 196.0e12])}
            if rng.random() < 0.6:
                band['spacing'] = rng.choice([50e9, 100e9, 75e9, 62.5e9])
            e.setdefault('params', {})['per_degree_design_bands'] = {rng.choice(succ): [band]}
    # a ROADM may mix the three per-degree target types (one type per degree): the documents are compared as they
    # are, so the degree can be named by the element that follows the ROADM in the document
    if flavour == 'mesh':
        kinds3 = [('per_degree_pch_out_db', [-20.5, -18.5, -22]), ('per_degree_psd_out_mWperGHz', [3.125e-4, 2e-4]),
                  ('per_degree_psd_out_mWperSlotWidth', [2e-4, 1.2e-4])]
        for e in tj['elements']:
            if e['type'] != 'Roadm' or rng.random() < 0.5:
                continue
            succ = [c['to_node'] for c in tj['connections'] if c['from_node'] == e['uid']
                    and not c['to_node'].startswith('trx')]
            taken = {d for k, _ in kinds3 for d in e.get('params', {}).get(k, {})}
            succ = [d for d in succ if d not in taken]
            rng.shuffle(succ)
            for d, (k, vals) in zip(succ, rng.sample(kinds3, len(kinds3))):
                e.setdefault('params', {}).setdefault(k, {})[d] = rng.choice(vals)
            if len([k for k, _ in kinds3 if e.get('params', {}).get(k)]) >= 2:
                MIXED[0] += 1
    # values with more digits than declared, cities, nulls
    for e in tj['elements']:
        loc = e['metadata']['location']
        loc['latitude'] = noisy(rng, loc['latitude'] + rng.random(), 'latitude')
        loc['longitude'] = noisy(rng, loc['longitude'] - rng.random(), 'longitude')
        if rng.random() < 0.5:
            loc['city'] = rng.choice(['Lannion', 'Brest', None])
        if rng.random() < 0.5:
            loc['region'] = rng.choice(['RLD', '', None])
        p = e.get('params', {})
        for k in ('length', 'att_in', 'con_in', 'con_out', 'loss'):
            if isinstance(p.get(k), (int, float)) and rng.random() < 0.5:
                p[k] = noisy(rng, p[k], k)
        if isinstance(p.get('loss_coef'), (int, float)):
            # use all the declared digits
            p['loss_coef'] = round(p['loss_coef'] + rng.choice([0.001, 0.0034, 0.000571, 0.012345]), 6)
            if rng.random() < 0.5:
                p['loss_coef'] = noisy(rng, p['loss_coef'], 'loss_coef')
        for k, step in (('length', 0.000123), ('att_in', 0.01), ('con_in', 0.03), ('con_out', 0.07)):
            if isinstance(p.get(k), (int, float)) and rng.random() < 0.5:
                p[k] = round(p[k] + step, digits_for(k))
        for k in ('per_degree_pch_out_db', 'per_degree_psd_out_mWperGHz', 'per_degree_psd_out_mWperSlotWidth'):
            if k in p:
                p[k] = {d: noisy(rng, v, k) for d, v in p[k].items()}
        op = e.get('operational')
        if isinstance(op, dict):
            for k in ('gain_target', 'delta_p', 'tilt_target', 'out_voa'):
                if isinstance(op.get(k), (int, float)) and rng.random() < 0.5:
                    op[k] = noisy(rng, op[k], k)
    # exact zeros: a value of 0 is a value (0 dBm target, no connector loss, flat tilt ...), not a missing leaf
    for e in tj['elements']:
        p = e.get('params', {})
        for k in ('att_in', 'con_in', 'con_out', 'loss'):
            if isinstance(p.get(k), (int, float)) and rng.random() < 0.12:
                p[k] = rng.choice([0, 0.0])
        for k in ('per_degree_pch_out_db',):
            if k in p:
                p[k] = {d: (rng.choice([0, 0.0]) if rng.random() < 0.3 else v) for d, v in p[k].items()}
        if 'target_pch_out_db' in p and rng.random() < 0.2:
            p['target_pch_out_db'] = 0
        op = e.get('operational')
        if isinstance(op, dict):
            for k in ('delta_p', 'tilt_target', 'out_voa'):
                if isinstance(op.get(k), (int, float)) and rng.random() < 0.15:
                    op[k] = rng.choice([0, 0.0])
        for a in e.get('amplifiers', []) or []:
            for k in ('delta_p', 'tilt_target', 'out_voa'):
                if isinstance(a.get('operational', {}).get(k), (int, float)) and rng.random() < 0.2:
                    a['operational'][k] = 0
    return tj, ename, flavour


def gen_equipment_doc(rng, raman=False):
    name = rng.choice(['eqpt_config.json', 'eqpt_config_multiband.json', 'eqpt_config_openroadm_ver5.json',
                       'eqpt_config_openroadm_ver4.json'])
    ej = G.eqpt_json(name)
    if name == 'eqpt_config.json':
        G.vary_span_si(rng, ej)
        ej['Edfa'] += GE.synth_library(rng, n=rng.randint(2, 6))
    for e in ej['Edfa']:
        for k in ('gain_flatmax', 'gain_min', 'p_max', 'nf_min', 'nf_max', 'nf0'):
            if isinstance(e.get(k), (int, float)) and rng.random() < 0.2 and e.get('type_def') == 'fixed_gain':
                e[k] = noisy(rng, e[k], k)
    for f in ej['Fiber']:
        if rng.random() < 0.5:
            f['pmd_coef'] = noisy(rng, f['pmd_coef'], 'pmd_coef')
        if rng.random() < 0.3:
            f['dispersion'] = noisy(rng, f['dispersion'], 'dispersion')
    sp = ej['Span'][0]
    for k in ('padding', 'EOL', 'con_in', 'con_out', 'max_length'):
        if isinstance(sp.get(k), (int, float)) and rng.random() < 0.3:
            sp[k] = noisy(rng, sp[k], k)
    if raman:
        # Raman coefficients of a fibre type (the equipment form: efficiency cr per frequency offset)
        base = deepcopy(rng.choice(ej['Fiber']))
        base.pop('gamma', None)
        n = rng.randint(2, 6)
        base['raman_efficiency'] = {'cr': [0.0] + [round(rng.uniform(1e-5, 4e-4), 9) for _ in range(n - 1)],
                                    'frequency_offset': [k * 0.5e12 for k in range(n)]}
        ej.setdefault('RamanFiber', [])
        if all(f['type_variety'] != base['type_variety'] for f in ej['RamanFiber']):
            ej['RamanFiber'].append(base)
    # exact zeros where zero is a legal value
    for k in ('EOL', 'con_in', 'con_out', 'target_extended_gain'):
        if k in sp and rng.random() < 0.2:
            sp[k] = 0
    si = ej['SI'][0]
    for k in ('power_dbm', 'sys_margins', 'tx_power_dbm', 'roll_off'):
        if isinstance(si.get(k), (int, float)) and rng.random() < 0.2:
            si[k] = 0
    for r in ej['Roadm']:
        for k in ('target_pch_out_db', 'pmd', 'pdl'):
            if isinstance(r.get(k), (int, float)) and rng.random() < 0.15:
                r[k] = 0
    for t in ej['Transceiver']:
        for m in t.get('mode', []):
            for k in ('equalization_offset_db', 'roll_off', 'cost'):
                if rng.random() < 0.1 and (k in m or k == 'equalization_offset_db'):
                    m[k] = 0
    return ej, name


ROUTE_OBJECTS_OUT_OF_ORDER = [0]


def gen_service_doc(rng):
    sites = ['A', 'B', 'C', 'D']
    reqs = []
    for i in range(rng.randint(1, 8)):
        a, z = rng.sample(sites, 2)
        nodes = [f'roadm {s}' for s in rng.sample(sites, rng.randint(0, 2))]
        hops = [rng.choice(['STRICT', 'LOOSE']) for _ in nodes]
        mode = rng.choice(['mode 1', 'mode 2', None])
        spacing = rng.choice([75e9, 87.5e9]) if mode == 'mode 2' else rng.choice([50e9, 75e9, 62.5e9])
        per_m = math.ceil(spacing / 12.5e9)
        slots = rng.choice([None, [{'N': None, 'M': None}], [{'N': rng.randrange(-200, 300), 'M': per_m}],
                            [{'N': 0, 'M': per_m}, {'N': 4 * per_m, 'M': per_m}]])
        bw = 100e9 if slots and slots[0]['M'] else rng.choice([100e9, 400e9, 250e9])
        r = S.request(i, f'trx {a}', f'trx {z}', trx_mode=mode,
                      spacing=spacing, nodes=nodes, hops=hops, bidir=rng.random() < 0.5,
                      slots=slots, path_bandwidth=bw, max_nb=rng.choice([None, 40, 20]),
                      power=rng.choice([None, 0.001, noisy(rng, 0.0012589254117941673, 'output-power')]),
                      tx_power=rng.choice([None, 0.001, noisy(rng, 0.0005, 'tx_power')]))
        ero = r.get('explicit-route-objects', {}).get('route-object-include-exclude')
        if ero and len(ero) >= 2 and rng.random() < 0.5:
            # the index is the key of the list and gives the order of the hops: the objects may be listed in any order
            # and the indices need not be consecutive
            if rng.random() < 0.5:
                for k, o in enumerate(ero):
                    o['index'] = 2 * k + 1
            rng.shuffle(ero)
            ROUTE_OBJECTS_OUT_OF_ORDER[0] += 1
        reqs.append(r)
    doc = {'path-request': reqs}
    if len(reqs) >= 2 and rng.random() < 0.6:
        doc['synchronization'] = [S.synchronization(1, [0, 1])]
    return doc


def gen_spectrum_doc(rng):
    parts = []
    f = 191.4e12
    for i in range(rng.randint(1, 4)):
        slot = rng.choice([50e9, 75e9, 100e9, 37.5e9])
        n = rng.randint(1, 10)
        p = {'f_min': f, 'f_max': f + (n - 1) * slot, 'baud_rate': slot * 0.64, 'slot_width': slot,
             'roll_off': rng.choice([0.15, 0.1]), 'tx_osnr': rng.choice([40, 37.5])}
        if rng.random() < 0.5:
            p['delta_pdb'] = rng.choice([0, 1.0, -1.5])
        if rng.random() < 0.5:
            p['tx_power_dbm'] = rng.choice([0, noisy(rng, rng.choice([0, -2.0, 1.5]), 'tx_power_dbm')])
        if rng.random() < 0.15:
            p['roll_off'] = 0
        if rng.random() < 0.5:
            p['label'] = f'part{i}'
        parts.append(p)
        f = p['f_max'] + slot * 2
    return {'spectrum': parts}


def gen_sim_doc(rng):
    d = {'raman_params': {'flag': rng.random() < 0.5, 'result_spatial_resolution': rng.choice([10e3, 5e3]),
                          'solver_spatial_resolution': rng.choice([50, 100, 10e3])},
         'nli_params': {'method': rng.choice(['gn_model_analytic', 'ggn_spectrally_separated', 'ggn_approx']),
                        'dispersion_tolerance': rng.choice([1, 4]), 'phase_shift_tolerance': 0.1}}
    if rng.random() < 0.5:
        d['raman_params']['method'] = rng.choice(['perturbative', 'numerical'])
        d['raman_params']['order'] = rng.choice([1, 2, 3])
    if rng.random() < 0.5:
        d['nli_params']['computed_channels'] = sorted(rng.sample(range(1, 90), rng.randint(1, 6)))
    elif rng.random() < 0.5:
        d['nli_params']['computed_number_of_channels'] = rng.randint(2, 9)
    return d


# ------------------------------------------------------------------------------------------------ cases

def export_of(tj, equipment):
    net = network_from_json(deepcopy(tj), equipment)
    return json.loads(json.dumps(network_to_json(net))), net


def run_topology(ctx):
    rng = ctx.rng
    MIXED[0] = 0
    tj, ename, flavour = gen_topology_doc(rng)
    if rng.random() < 0.3:
        tj = shuffle_members(rng, tj)
        ctx.count('documents_with_shuffled_members')
    for _ in range(MIXED[0]):
        ctx.count('roadms_mixing_per_degree_target_types')
    ctx.dump.update({'document': tj})
    equipment = G.make_equipment(G.eqpt_json(ename))
    x1, n1 = export_of(tj, equipment)          # the real legacy loader accepts the document
    rt = roundtrip(ctx, tj, 'topology', accepted_by_loader=True)
    if rt is None:
        return
    y, l2 = rt
    # the same YANG document with its identity values written in the qualified form (module name in front, RFC 7951
    # 6.8 allows both): it is valid and it means the same
    yq = qualify_identities(y, 'gnpy-network-topology', ('type', 'length_units', 'propagation_direction'))
    if yq is not None:
        try:
            load_data(json.dumps(yq))
            ok = True
        except Exception as e:  # noqa
            ok = False
            ctx.skip(f'qualified-identities-not-valid:{type(e).__name__}')
        if ok:
            ctx.count('qualified_identity_documents')
            lq = yang_to_legacy(deepcopy(yq))
            if lq != l2:
                cq = Cmp(ctx, 'topology')
                cq.walk(l2, lq, [])
                ctx.violation('qualified-identities', 'topology: the YANG document with qualified identity values '
                              f'converts to another legacy document than with bare ones: {cq.first}')
    c = compare_docs(ctx, tj, l2, 'topology')
    x2, n2 = export_of(l2, equipment)
    ctx.count('loader_equivalence_checks')
    cc = Cmp(ctx, 'export', rel=1e-5)
    cc.walk(x1, x2, [])
    if cc.first:
        ctx.violation('loader-equivalence', f'topology ({flavour}): networks built from the legacy and from the '
                      f'round-tripped document differ: {cc.first}')
    # the export does not carry every fibre parameter: compare the parameters of the built fibres as well
    f1 = {n.uid: attr_dict(n.params.asdict()) for n in n1.nodes() if hasattr(n.params, 'asdict')}
    f2 = {n.uid: attr_dict(n.params.asdict()) for n in n2.nodes() if hasattr(n.params, 'asdict')}
    cf = Cmp(ctx, 'fibre parameters', rel=1e-5)
    cf.walk(f1, f2, [])
    ctx.count('fibre_parameter_sets_compared', len(f1))
    if cf.first:
        ctx.violation('loader-equivalence', f'topology ({flavour}): fibres built from the legacy and from the '
                      f'round-tripped document differ: {cf.first}')
    optional = any(k in e.get('params', {}) for e in tj['elements']
                   for k in ('per_degree_pch_out_db', 'per_degree_psd_out_mWperGHz', 'design_bands', 'lumped_losses')) \
        or any(isinstance(e.get('params', {}).get('loss_coef'), dict) for e in tj['elements'])
    ctx.cls(f'topology:{flavour}')
    if c.extra_digits or optional:
        ctx.nontrivial(P.digest(tj))
    if not ctx.samples:
        ctx.sample({'kind': 'topology', 'flavour': flavour, 'elements': len(tj['elements']),
                    'leaves_compared': c.n, 'values_with_extra_digits': c.extra_digits,
                    'example_element': next(e for e in tj['elements'] if e['type'] == 'Fiber')})


def attr_dict(obj, depth=0):
    if depth > 14:
        return repr(obj)
    if isinstance(obj, np.ndarray):
        return obj.tolist()
    if isinstance(obj, dict):
        return {str(k): attr_dict(v, depth + 1) for k, v in obj.items()}
    if isinstance(obj, (list, tuple)):
        return [attr_dict(v, depth + 1) for v in obj]
    if hasattr(obj, '__dict__') and not isinstance(obj, type):
        return {k: attr_dict(v, depth + 1) for k, v in vars(obj).items()}
    return obj


def classify_exception(e, tbs, ctx):
    if 'Node "raman_coefficient" not found as a child of "RamanFiber"' in str(e):
        return 'equipment-raman-efficiency-comes-back-as-raman-coefficient'
    return None


def run_equipment(ctx, raman=False):
    rng = ctx.rng
    ej, name = gen_equipment_doc(rng, raman=raman)
    ctx.dump.update({'document_name': name})
    rt = roundtrip(ctx, ej, 'equipment')
    if rt is None:
        return
    y, l2 = rt
    c = compare_docs(ctx, ej, l2, 'equipment', allowed_extra=('type_variety',))
    e1 = attr_dict(_equipment_from_json(deepcopy(ej), DEFAULT_EXTRA_CONFIG))
    e2 = attr_dict(_equipment_from_json(deepcopy(l2), DEFAULT_EXTRA_CONFIG))
    ctx.count('loader_equivalence_checks')
    duals = {e['type_variety'] for e in ej.get('Edfa', []) if e.get('type_def') == 'dual_stage'}
    cc = Cmp(ctx, 'equipment objects', rel=1e-5,
             derived=lambda path: 2 if len(path) >= 2 and path[0] == 'Edfa' and path[1] in duals else 1)
    cc.walk(e1, e2, [])
    if cc.first:
        ctx.violation('loader-equivalence', f'equipment ({name}): libraries built from the two forms differ: {cc.first}')
    ctx.cls(f'equipment:{name}')
    ctx.nontrivial(P.digest(ej))
    if not ctx.samples:
        ctx.sample({'kind': 'equipment', 'library': name, 'leaves_compared': c.n, 'extra_digits': c.extra_digits})


def run_services(ctx):
    rng = ctx.rng
    ROUTE_OBJECTS_OUT_OF_ORDER[0] = 0
    doc = gen_service_doc(rng)
    ctx.count('requests_with_route_objects_out_of_order', ROUTE_OBJECTS_OUT_OF_ORDER[0])
    ctx.dump.update({'document': doc})
    rt = roundtrip(ctx, doc, 'services')
    if rt is None:
        return
    y, l2 = rt
    c = compare_docs(ctx, doc, l2, 'services')
    equipment = G.make_equipment(G.eqpt_json())
    r1 = [attr_dict(r) for r in requests_from_json(deepcopy(doc), equipment)]
    r2 = [attr_dict(r) for r in requests_from_json(deepcopy(l2), equipment)]
    d1 = [attr_dict(d) for d in disjunctions_from_json(deepcopy(doc))]
    d2 = [attr_dict(d) for d in disjunctions_from_json(deepcopy(l2))]
    ctx.count('loader_equivalence_checks')
    cc = Cmp(ctx, 'requests', rel=1e-5)
    cc.walk({'r': r1, 'd': d1}, {'r': r2, 'd': d2}, [])
    if cc.first:
        ctx.violation('loader-equivalence', f'services: requests built from the two forms differ: {cc.first}')
    ctx.cls('services')
    ctx.nontrivial(P.digest(doc))
    if not ctx.samples:
        ctx.sample({'kind': 'services', 'requests': len(doc['path-request']), 'first': doc['path-request'][0]})


def run_spectrum(ctx):
    rng = ctx.rng
    doc = gen_spectrum_doc(rng)
    ctx.dump.update({'document': doc})
    rt = roundtrip(ctx, doc, 'spectrum')
    if rt is None:
        return
    y, l2 = rt
    c = compare_docs(ctx, doc, l2, 'spectrum')
    s1 = {f: vars(v) for f, v in _spectrum_from_json(deepcopy(doc['spectrum'])).items()}
    s2 = {f: vars(v) for f, v in _spectrum_from_json(deepcopy(l2['spectrum'])).items()}
    ctx.count('loader_equivalence_checks')
    if sorted(s1) != sorted(s2):
        ctx.violation('loader-equivalence', f'spectrum: carrier frequencies differ between the two forms')
    else:
        cc = Cmp(ctx, 'carriers', rel=1e-5)
        cc.walk({str(k): v for k, v in s1.items()}, {str(k): v for k, v in s2.items()}, [])
        if cc.first:
            ctx.violation('loader-equivalence', f'spectrum: carriers built from the two forms differ: {cc.first}')
    ctx.cls('spectrum')
    ctx.nontrivial(P.digest(doc))


def run_sim(ctx):
    rng = ctx.rng
    doc = gen_sim_doc(rng)
    ctx.dump.update({'document': doc})
    rt = roundtrip(ctx, doc, 'sim-params')
    if rt is None:
        return
    y, l2 = rt
    compare_docs(ctx, doc, l2, 'sim-params')
    SimParams.set_params(deepcopy(doc))
    a = {k: v.to_json() for k, v in SimParams._shared_dict.items()}
    SimParams.set_params(deepcopy(l2))
    b = {k: v.to_json() for k, v in SimParams._shared_dict.items()}
    SimParams.set_params({})
    ctx.count('loader_equivalence_checks')
    if a != b:
        ctx.violation('loader-equivalence', f'sim-params: settings in force differ between the two forms: {a} vs {b}')
    ctx.cls('sim-params')
    ctx.nontrivial(P.digest(doc))


def run_alias(ctx):
    """Equipment entries declared under several names: every name present, identical parameters, own name."""
    rng = ctx.rng
    ej = G.eqpt_json()
    base_amp = rng.choice(['std_medium_gain', 'std_low_gain', 'std_fixed_gain'])
    amp = deepcopy(next(e for e in ej['Edfa'] if e['type_variety'] == base_amp))
    amp['type_variety'] = 'vfAmp'
    amp['other_name'] = [f'vfAmp_alias{i}' for i in range(rng.randint(1, 3))]
    ej['Edfa'].append(amp)
    trx = deepcopy(next(t for t in ej['Transceiver'] if t['type_variety'] == 'Voyager'))
    trx['type_variety'] = 'vfTrxA'
    trx['other_name'] = [f'vfTrx_alias{i}' for i in range(rng.randint(1, 3))]
    # mode aliases, on modes with and without a penalty table
    mode_alias = {}
    for i, m in enumerate(trx['mode']):
        if rng.random() < 0.4:
            m['penalties'] = [{'chromatic_dispersion': 4e3, 'penalty_value': 0},
                              {'chromatic_dispersion': 40e3, 'penalty_value': 0.5},
                              {'pmd': 10, 'penalty_value': 0}, {'pmd': 30, 'penalty_value': 0.5}]
        if rng.random() < 0.5:
            m['other_name'] = [f'{m["format"]}-alias{k}' for k in range(rng.randint(1, 2))]
            mode_alias[m['format']] = list(m['other_name'])
    ej['Transceiver'].append(trx)
    for form in ('legacy', 'yang'):
        doc = deepcopy(ej)
        if form == 'yang':
            rt = roundtrip(ctx, ej, 'equipment with aliases')
            if rt is None:
                return
            doc = rt[1]
        equipment = _equipment_from_json(deepcopy(doc), DEFAULT_EXTRA_CONFIG)
        for typ, entry in (('Edfa', amp), ('Transceiver', trx)):
            names = [entry['type_variety']] + entry['other_name']
            ctx.count('alias_checks')
            objs = {}
            for n in names:
                if n not in equipment[typ]:
                    ctx.violation('alias-missing', f'{form}: {typ} {n} declared as a name of {entry["type_variety"]} is '
                                  'not in the loaded library')
                    continue
                objs[n] = equipment[typ][n]
                if objs[n].type_variety != n:
                    ctx.violation('alias-name', f'{form}: {typ} entry loaded under the name {n} reports the name '
                                  f'{objs[n].type_variety}', mechanism='transceiver-alias-reports-other-name'
                                  if typ == 'Transceiver' else None)
            if typ == 'Transceiver':
                # every mode alias is a mode of every name of the transceiver, identical to its mode but for the name
                for n, o in objs.items():
                    by_format = {m['format']: m for m in o.mode}
                    for fmt, aliases in mode_alias.items():
                        for al in aliases:
                            ctx.count('mode_alias_checks')
                            if al not in by_format or fmt not in by_format:
                                ctx.violation('alias-missing', f'{form}: transceiver {n}: mode {al} declared as a name '
                                              f'of mode {fmt} is not in the loaded library (modes {sorted(by_format)})')
                                continue
                            a = {k: v for k, v in by_format[fmt].items() if k != 'format'}
                            b = {k: v for k, v in by_format[al].items() if k != 'format'}
                            if json.dumps(a, sort_keys=True, default=str) != json.dumps(b, sort_keys=True, default=str):
                                ctx.violation('alias-parameters', f'{form}: transceiver {n}: mode {al} differs from '
                                              f'{fmt}')
            base = attr_dict(objs.get(names[0]))
            for n, o in objs.items():
                d = attr_dict(o)
                if base is None:
                    continue
                a = {k: v for k, v in base.items() if k != 'type_variety'}
                b = {k: v for k, v in d.items() if k != 'type_variety'}
                if a != b:
                    diff = [k for k in a if a[k] != b.get(k)]
                    ctx.violation('alias-parameters', f'{form}: {typ} {n} differs from {names[0]} in {diff[:4]}')
    ctx.cls('alias')
    ctx.nontrivial(('alias', amp['other_name'], trx['other_name']))
    if not ctx.samples:
        ctx.sample({'kind': 'alias', 'amplifier_names': [amp['type_variety']] + amp['other_name'],
                    'transceiver_names': [trx['type_variety']] + trx['other_name']})


def run_case(case, ctx):
    k = case['kind']
    if k == 'kf-raman-efficiency':
        ctx.nontrivial(('kf-raman-efficiency', case['idx']))
        return run_equipment(ctx, raman=True)
    {'topology': run_topology, 'equipment': run_equipment, 'services': run_services, 'spectrum': run_spectrum,
     'sim': run_sim, 'alias': run_alias}[k](ctx)
    if not ctx.violations:
        ctx.dump.clear()
