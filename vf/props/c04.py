"""C04 - amplifier applies its set gain, the quantum-limited ASE, and never exceeds p_max.

Monitor: every crossing of a real Edfa (shipped and synthetic models) is recorded with its input/output spectrum
and run-time attributes; an independent reference (vf.ref.amp) predicts effective gain, NF and per-channel ASE;
NF laws are checked on gain sweeps of real objects; band filtering is checked on spectra straddling the band.
"""
import json
from copy import deepcopy

import numpy as np

from gnpy.core.elements import Edfa, Multiband_amplifier
from gnpy.core.utils import dbm2watt
from gnpy.core.parameters import SimParams

from vf import attach
from vf.gen import common as G, eqpt as GE
from vf.ref import amp as RA
from vf.props.c03 import make_si, rel_dev

ID = 'C04'
RULE = ('every single-band amplifier model of the shipped libraries (stock, tests, OpenROADM v4/v5, multiband, extra) '
        'and synthetic libraries (variable/fixed gain, advanced polynomial, OpenROADM, dual stage) x set gain from 5 dB '
        'below gain_min to 5 dB above flat-max x tilt +-3 dB x VOAs x input loads -30..+27 dBm total, uniform and '
        'non-uniform, 1..120 channels, with and without prior ASE/NLI. Non-trivial: a crossing with >=2 channels. '
        'Distinct: hash of (model entry, operational settings, spectrum). Situation classes: model type x saturated? '
        'x gain region x tilt? recorded.')
ASSUMPTIONS = ['OpenROADM NF judged on uniform grids only (the model assumes per-50GHz input power on a uniform grid)',
               'with tilt or gain ripple the total gain is only required within the error bound of the single secant step (h^2/8*ln10/10*Var(dgt), x2; documented '
               'in the implementation); flat gain within 1e-9 dB',
               'reference NF models written from docs/amplifier_models_description.rst and the two-coil operator model']
REQUIRED_COUNTERS = {'crossings': 100, 'crossings_of_a_used_object': 50, 'ase_checks': 100, 'gain_clamp_checks': 100, 'saturated_crossings': 10,
                     'nf_law_sweeps': 5, 'band_filter_checks': 10}
CASE_TIMEOUT = {'quick': 120, 'thorough': 300}

LIBS = ['eqpt_config.json', 'eqpt_config_openroadm_ver4.json', 'eqpt_config_openroadm_ver5.json',
        'eqpt_config_multiband.json', 'extra_eqpt_config.json', 'tests:eqpt_config.json']


def plan(tier, seed):
    n = 4000 if tier == "quick" else 40000
    kinds = ['cross', 'cross', 'cross', 'sweep', 'band', 'cross', 'cross', 'synth']
    return [{'idx': i, 'kind': kinds[i % len(kinds)]} for i in range(n)]


def load_lib(rng, name=None, synth=False):
    """Returns (legacy equipment json, equipment, extra_configs)."""
    extra = {'user_edfa_config.json': json.loads((G.TESTDATA / 'user_edfa_config.json').read_text())}
    name = name or G.pick(rng, LIBS)
    if name.startswith('tests:'):
        ej = json.loads(json.dumps(G.load_gnpy_json(G.TESTDATA / name[6:])))
    elif name == 'extra_eqpt_config.json':
        ej = G.eqpt_json('eqpt_config.json')
        x = G.eqpt_json('extra_eqpt_config.json')
        ej['Edfa'] += x['Edfa']
    else:
        ej = G.eqpt_json(name)
    if synth:
        ej['Edfa'] += GE.synth_library(rng, n=rng.randint(4, 10), kinds=('variable_gain', 'variable_gain',
                                                                           'fixed_gain', 'advanced_model', 'openroadm'))
    return ej, G.make_equipment(ej, extra), extra


def model_for(ej, name, extra):
    lib = {}
    for e in ej['Edfa']:
        lib[e['type_variety']] = e
        for o in e.get('other_name', []):
            lib[o] = e
    e = lib[name]
    adv = None
    if e.get('type_def') == 'advanced_model':
        from gnpy.tools.default_edfa_config import DEFAULT_EXTRA_CONFIG
        cfgs = dict(DEFAULT_EXTRA_CONFIG)
        cfgs.update(extra)
        adv = cfgs[e['advanced_config_from_json']]
    return RA.AmpModel(e, lib, adv), e


def band_of(eq_amp):
    return eq_amp.f_min, eq_amp.f_max


def make_amp(equipment, name, operational):
    return Edfa(uid=f'amp {name}', type_variety=name, params=deepcopy(equipment['Edfa'][name].__dict__),
                operational=operational)


def gen_load(rng, f_lo, f_hi, *, uniform=None, total_dbm=None, n_max=120):
    uniform = rng.random() < 0.5 if uniform is None else uniform
    carriers = G.gen_carriers(rng, f_lo=f_lo + 40e9, f_hi=f_hi - 40e9, n_max=G.pick(rng, [1, 2, 4, 16, 48, n_max]),
                              n_min=1, max_dbm=0, min_dbm=-25)
    if uniform and carriers:
        k = carriers[0]
        for i, c in enumerate(carriers):
            c.update({kk: k[kk] for kk in ('slot_width', 'baud_rate', 'roll_off', 'tx_power_dbm', 'label')})
            c['frequency'] = carriers[0]['frequency'] + i * k['slot_width']
        carriers = [c for c in carriers if c['frequency'] + c['slot_width'] / 2 <= f_hi - 1e9]
    carriers = [c for c in carriers if c['frequency'] - c['slot_width'] / 2 >= f_lo
                and c['frequency'] + c['slot_width'] / 2 <= f_hi]
    if not carriers:
        return None, uniform
    if total_dbm is None:
        total_dbm = G.rnd(rng, -30, 27, 2)
    tot = sum(dbm2watt(c['tx_power_dbm']) for c in carriers)
    shift = total_dbm - 10 * np.log10(tot * 1e3)
    for c in carriers:
        c['tx_power_dbm'] = c['tx_power_dbm'] + shift
    return carriers, uniform


def nf_ripple_at(e_lib, adv, eq_amp, freqs):
    rip = np.atleast_1d(np.asarray(eq_amp.nf_ripple, dtype=float))
    grid = np.linspace(eq_amp.f_min, eq_amp.f_max, len(rip))
    return np.interp(freqs, grid, rip)


def cross_and_check(ctx, rng, ej, equipment, extra, name, *, carriers, uniform, operational, prior_noise, amp=None):
    """One monitored crossing.  `amp`: an amplifier object that has already been crossed (its effective gain then is
    whatever the previous crossing left: the set gain of this crossing).  Returns the amplifier object."""
    eqa = equipment['Edfa'][name]
    model, e_lib = model_for(ej, name, extra)
    if amp is None:
        amp = make_amp(equipment, name, operational)
    else:
        ctx.count('crossings_of_a_used_object')
    si = make_si(carriers)
    if prior_noise:
        si.add_ase(si.pch * np.array([10 ** rng.uniform(-5, -1.5) for _ in carriers]))
        si.add_nli(si.pch * np.array([10 ** rng.uniform(-5, -1.5) for _ in carriers]))
    set_gain = amp.effective_gain
    attach.install()
    attach.reset()
    out = amp(si)
    ev = attach.EVENTS[0]
    b, a, post = ev['before'], ev['after'], ev['post']
    ctx.count('crossings')
    td = e_lib.get('type_def', 'variable_gain')
    in_voa = operational.get('in_voa') or 0.0
    out_voa = operational.get('out_voa') or 0.0
    tilt = operational.get('tilt_target') or 0.0
    vin = 10 ** (-in_voa / 10)
    # all generated channels are in band: same set must come out
    if not np.array_equal(a.frequency, b.frequency):
        ctx.violation('in-band-channel-lost', f'{name}: channel set changed although all channels are in band',
                      {'in': b.frequency[:6], 'out': a.frequency[:6]})
        return amp
    pin_w = b.pch * vin
    pin_db = 10 * np.log10(pin_w.sum() * 1e3)
    p_max = model.p_max()
    # (1) effective gain = min(set gain, p_max - total input power)
    exp_gain = min(set_gain, p_max - pin_db)
    saturated = exp_gain < set_gain
    ctx.count('gain_clamp_checks')
    if saturated:
        ctx.count('saturated_crossings')
    if abs(post['effective_gain'] - exp_gain) > 1e-9:
        ctx.violation('effective-gain', f'{name}: effective gain {post["effective_gain"]:.6f} dB, expected min(set '
                      f'{set_gain}, p_max {p_max} - pin {pin_db:.4f}) = {exp_gain:.6f}',
                      {'operational': operational, 'pin_db': pin_db})
        return amp
    # (2) per-channel signal-path gain and total gain
    sig_in = b.pch * b.sr * vin
    sig_out = a.pch * a.sr
    g_i = sig_out / sig_in * 10 ** (out_voa / 10)          # amplifier gain before the output VOA
    tot_gain = 10 * np.log10((pin_w * g_i).sum() / pin_w.sum())
    flat = (tilt == 0 and np.ptp(np.atleast_1d(eqa.gain_ripple)) == 0) or a.n == 1
    if flat:
        tol = 1e-9
    else:
        # The gain profile is normalised with ONE secant step on gavg(x) = total gain as a function of the DGT
        # scaling x, over a bracket of half-width h = ptp(first-estimate profile); gavg'' = ln10/10 * Var_w(dgt),
        # so the method's own interpolation error is <= h^2/8 * ln10/10 * Var_w(dgt).  A profile with less than
        # 0.05 dB of ripple is returned after the unweighted normalisation only: error <= its ripple.
        g_db = 10 * np.log10(g_i)
        ptp_g = float(np.ptp(g_db))
        dgt = np.asarray(amp.interpol_dgt, dtype=float)
        if dgt.shape != g_db.shape:
            dgt = np.full_like(g_db, 0.0)
        w = pin_w * g_i
        mean_d = float((w * dgt).sum() / w.sum())
        var_d = float((w * (dgt - mean_d) ** 2).sum() / w.sum())
        h = ptp_g + 0.2 * float(np.ptp(dgt))
        if ptp_g <= 0.05 + 1e-9:
            tol = ptp_g + 1e-9
        else:
            tol = 2.0 * h ** 2 / 8 * np.log(10) / 10 * max(var_d, float(np.ptp(dgt)) ** 2 / 12) + 1e-6
        ctx.maxstat('total_gain_residual_over_secant_bound', abs(tot_gain - exp_gain) / tol)
        ctx.maxstat('total_gain_tolerance_db', tol)
    if abs(tot_gain - exp_gain) > tol:
        ctx.violation('total-gain', f'{name}: power-weighted total gain {tot_gain:.6f} dB != effective gain '
                      f'{exp_gain:.6f} (tol {tol})', {'operational': operational, 'tilt': tilt, 'n': a.n})
    pout_signal_path = 10 * np.log10((pin_w * g_i).sum() * 1e3)
    if pout_signal_path > p_max + tol + 1e-9:
        ctx.violation('p-max-exceeded', f'{name}: total output {pout_signal_path:.4f} dBm exceeds p_max {p_max}',
                      {'operational': operational, 'pin_db': pin_db})
    # (3) ASE referred to the input = h f B NF(reference model)
    judge_nf = True
    pin50 = None
    if td.startswith('openroadm'):
        if not uniform:
            judge_nf = False
            ctx.skip('openroadm-nf-on-non-uniform-grid')
        else:
            sw = carriers[0]['slot_width']
            pin50 = pin_db - 10 * np.log10(a.n) + 10 * np.log10(50e9 / sw)
    if td == 'dual_stage':
        for v in (e_lib['preamp_variety'], e_lib['booster_variety']):
            if model.lib[v].get('type_def', 'variable_gain').startswith('openroadm'):
                judge_nf = False
    if judge_nf:
        nf_ref = model.nf(exp_gain, pin50) + nf_ripple_at(e_lib, model.adv, eqa, a.frequency)
        ase_ref = RA.H * a.frequency * a.baud_rate * 10 ** (nf_ref / 10)
        ase_in = b.pch * b.ar * vin
        ase_added = (a.pch * a.ar) * 10 ** (out_voa / 10) / g_i - ase_in
        ctx.count('ase_checks')
        if td == 'openroadm_booster':
            ok = np.all(np.abs(ase_added) <= 1e-9 * np.maximum(ase_in, 1e-30) + 1e-25)
        else:
            ok = rel_dev(ase_added, ase_ref) <= (1e-9 if not prior_noise else 1e-6)
        if not ok:
            k = int(np.argmax(np.abs(ase_added - ase_ref)))
            ctx.violation('ase-formula', f'{name} ({td}): ASE added on channel {k} is {ase_added[k]:.6e} W, '
                          f'h.f.B.NF gives {ase_ref[k]:.6e} W (NF ref {nf_ref[k]:.4f} dB, gnpy nf '
                          f'{np.atleast_1d(post["nf"])[min(k, np.atleast_1d(post["nf"]).size - 1)]:.4f})',
                          {'operational': operational, 'gain': exp_gain, 'entry': e_lib})
    region = 'below_min' if exp_gain < e_lib.get('gain_min', 0) else (
        'extended' if exp_gain > model.gain_flatmax() else 'in_range')
    ctx.cls(f'{td}|{"sat" if saturated else "lin"}|{region}|{"tilt" if tilt else "flat"}')
    if a.n >= 2:
        ctx.nontrivial((e_lib, operational, [(c['frequency'], c['baud_rate'], round(c['tx_power_dbm'], 3))
                                             for c in carriers[:50]]))
    if not ctx.samples:
        ctx.sample({'model': e_lib, 'operational': operational, 'channels': int(a.n), 'pin_dbm': float(pin_db),
                    'effective_gain': float(exp_gain), 'saturated': bool(saturated)})
    return amp


def run_cross(case, ctx, synth=False):
    rng = ctx.rng
    ej, equipment, extra = load_lib(rng, synth=synth)
    names = [n for n, a in equipment['Edfa'].items() if a.type_def != 'multi_band']
    if synth:
        names = [n for n in names if n.startswith('syn')] or names
    for _ in range(6):
        name = G.pick(rng, names)
        eqa = equipment['Edfa'][name]
        model, e_lib = model_for(ej, name, extra)
        gmin, gmax = e_lib.get('gain_min', 0), model.gain_flatmax()
        if e_lib.get('type_def') == 'dual_stage':
            # the second stage takes gain - g1: keep it positive
            lo = model.lib[e_lib['preamp_variety']]['gain_flatmax'] + 1
        else:
            lo = max(gmin - 5, 1)
        gain = G.rnd(rng, lo, gmax + 5, 2)
        operational = {'gain_target': gain, 'tilt_target': G.pick(rng, [0, 0, 0, -3, 3, 1.2, -0.7]),
                       'out_voa': G.pick(rng, [0, 0, 1.0, 2.5, None]), 'in_voa': G.pick(rng, [0, 0, 0, 0.5, 2.0])}
        if operational['out_voa'] is None:
            operational['out_voa'] = 0
        carriers, uniform = gen_load(rng, eqa.f_min, eqa.f_max)
        if not carriers:
            continue
        amp = cross_and_check(ctx, rng, ej, equipment, extra, name, carriers=carriers, uniform=uniform,
                              operational=operational, prior_noise=rng.random() < 0.4)
        # the same object is crossed again by every later request of a planning run: other load, other power
        for _ in range(rng.choice([0, 0, 1, 2])):
            if ctx.violations:
                break
            if rng.random() < 0.5:
                shift = G.rnd(rng, -12, 6, 2)
                carriers = [dict(c, tx_power_dbm=c['tx_power_dbm'] + shift) for c in carriers]
            else:
                carriers, uniform = gen_load(rng, eqa.f_min, eqa.f_max)
                if not carriers:
                    break
            amp = cross_and_check(ctx, rng, ej, equipment, extra, name, carriers=carriers, uniform=uniform,
                                  operational=operational, prior_noise=rng.random() < 0.4, amp=amp)
        if ctx.violations:
            ctx.dump.update({'lib_entry': e_lib, 'operational': operational, 'carriers': carriers[:40]})
            return


def nf_of(equipment, name, gain, carriers):
    amp = make_amp(equipment, name, {'gain_target': gain, 'tilt_target': 0, 'out_voa': 0})
    amp(make_si(carriers))
    return float(np.mean(amp.nf)), amp.effective_gain


def run_sweep(case, ctx):
    """NF laws on gain sweeps of real objects (low load, no saturation)."""
    rng = ctx.rng
    ej, equipment, extra = load_lib(rng, synth=rng.random() < 0.6)
    cands = [n for n, a in equipment['Edfa'].items() if a.type_def in ('variable_gain', 'fixed_gain', 'advanced_model')]
    for name in rng.sample(cands, min(3, len(cands))):
        eqa = equipment['Edfa'][name]
        model, e_lib = model_for(ej, name, extra)
        carriers, _ = gen_load(rng, eqa.f_min, eqa.f_max, uniform=True, total_dbm=-25, n_max=8)
        if not carriers:
            continue
        gmin, gmax = e_lib['gain_min'], e_lib['gain_flatmax']
        rip = float(np.mean(nf_ripple_at(e_lib, model.adv, eqa, np.array([c['frequency'] for c in carriers]))))
        gains = np.linspace(gmin, gmax, 9)
        nfs = [nf_of(equipment, name, float(g), carriers)[0] - rip for g in gains]
        ctx.count('nf_law_sweeps')
        td = e_lib['type_def']
        if td == 'variable_gain':
            if abs(nfs[-1] - e_lib['nf_min']) > 0.011 or abs(nfs[0] - e_lib['nf_max']) > 0.011:
                ctx.violation('nf-endpoints', f'{name}: NF(gain_flatmax)={nfs[-1]:.4f} (nf_min {e_lib["nf_min"]}), '
                              f'NF(gain_min)={nfs[0]:.4f} (nf_max {e_lib["nf_max"]})', {'entry': e_lib})
        if td in ('variable_gain', 'fixed_gain'):
            if any(nfs[i + 1] > nfs[i] + 1e-9 for i in range(len(nfs) - 1)):
                ctx.violation('nf-not-monotonic', f'{name}: NF increases with gain: {nfs}', {'entry': e_lib})
        # dB for dB below minimum gain
        for d in (0.5, 2.0, 4.0):
            if gmin - d <= 0.5:
                continue
            nf_b = nf_of(equipment, name, gmin - d, carriers)[0] - rip
            if abs(nf_b - (nfs[0] + d)) > 1e-9:
                ctx.violation('nf-below-gain-min', f'{name}: NF at gain_min-{d} is {nf_b:.6f}, expected '
                              f'{nfs[0] + d:.6f}', {'entry': e_lib})
        # and each point equals the reference model
        for g, nf in zip(gains, nfs):
            ref = model.nf(float(g))
            if abs(nf - ref) > 1e-9:
                ctx.violation('nf-model', f'{name}: NF({g:.3f}) = {nf:.6f}, reference model {ref:.6f}',
                              {'entry': e_lib})
                break
        ctx.cls(f'sweep:{td}')
        ctx.nontrivial(('sweep', e_lib))
        if not ctx.samples:
            ctx.sample({'sweep_of': e_lib, 'gains': gains.tolist(), 'nf': nfs})
        if ctx.violations:
            return


def run_band(case, ctx):
    """Out-of-band channels are not amplified: exactly the channels whose whole slot lies in the band come out."""
    rng = ctx.rng
    ej, equipment, extra = load_lib(rng, name=G.pick(rng, ['eqpt_config_multiband.json', 'eqpt_config.json',
                                                            'extra_eqpt_config.json']))
    names = [n for n, a in equipment['Edfa'].items() if a.type_def != 'multi_band']
    for _ in range(4):
        name = G.pick(rng, names)
        eqa = equipment['Edfa'][name]
        f_lo, f_hi = eqa.f_min, eqa.f_max
        override = None
        if rng.random() < 0.35 and f_hi - f_lo > 2e12:
            # the network element narrows the band of its library type with its own f_min / f_max (params of the
            # element in the topology file): the element's band is the one in force
            override = (f_lo + G.pick(rng, [0.0, 0.5e12, 0.725e12]), f_hi - G.pick(rng, [0.0, 0.4e12, 1.125e12]))
            f_lo, f_hi = override
            ctx.count('band_checks_with_element_level_band')
        # carriers around both band edges, some exactly on the edge, some 1 Hz outside
        slot = G.pick(rng, [50e9, 75e9, 37.5e9])
        baud = slot * 0.64
        cs = []
        first = f_lo + slot / 2 + G.pick(rng, [0, -1, 1, -slot, slot * 2, -3 * slot])
        f = first
        while f - slot / 2 <= f_hi + 2 * slot and len(cs) < 200:
            cs.append({'frequency': float(f), 'slot_width': slot, 'baud_rate': baud, 'roll_off': 0.15, 'tx_osnr': 40,
                       'tx_power_dbm': -20.0, 'delta_pdb': 0, 'label': 'x'})
            f += slot
        # make the last channel end exactly on / 1 Hz beyond the upper edge
        k = int((f_hi - slot / 2 - first) // slot)
        shift = (f_hi - slot / 2) - (first + k * slot) + G.pick(rng, [0, 1, -1])
        for c in cs:
            c['frequency'] += shift if rng.random() < 1 else 0
        if rng.random() < 0.5:
            cs = cs[::G.pick(rng, [1, 2, 3])]
        if rng.random() < 0.4:
            # only carriers whose centre frequency lies in the band; the slot of the first / last one may still reach
            # over the band edge (a comb shifted by a fraction of a slot)
            d = G.pick(rng, [0.0, slot * 0.25, -slot * 0.25, slot * 0.4])
            cs = [dict(c, frequency=c['frequency'] + d) for c in cs]
            cs = [c for c in cs if f_lo <= c['frequency'] <= f_hi]
            if not cs:
                continue
        expected = [c['frequency'] for c in cs
                    if c['frequency'] - slot / 2 >= f_lo and c['frequency'] + slot / 2 <= f_hi]
        amp = make_amp(equipment, name, {'gain_target': float(getattr(eqa, 'gain_min', 15) or 15) + 1,
                                         'tilt_target': 0, 'out_voa': 0})
        if override:
            amp = Edfa(uid=f'amp {name}', type_variety=name,
                       params=dict(deepcopy(equipment['Edfa'][name].__dict__), f_min=f_lo, f_max=f_hi),
                       operational={'gain_target': float(getattr(eqa, 'gain_min', 15) or 15) + 1, 'tilt_target': 0,
                                    'out_voa': 0})
        ctx.count('band_filter_checks')
        try:
            out = amp(make_si(cs))
            got = out.frequency.tolist()
        except ValueError as e:
            got = None
            if expected:
                ctx.violation('band-filter-raised', f'{name}: in-band channels present but the amplifier raised {e}')
        if got is not None and sorted(got) != sorted(expected):
            ctx.violation('band-filter', f'{name}: band [{f_lo}, {f_hi}]: expected {len(expected)} channels out, got '
                          f'{len(got)}', {'missing': sorted(set(expected) - set(got))[:5],
                                          'extra': sorted(set(got) - set(expected))[:5]})
        if got is None and not expected:
            ctx.cls('band:all-outside-raises')
        ctx.cls('band:edges')
        ctx.nontrivial(('band', name, first, shift, slot))
    # multiband dispatch: each channel is handled by exactly one band amplifier
    if 'std_medium_gain_multiband' in equipment['Edfa']:
        mb = equipment['Edfa']['std_medium_gain_multiband']
        amps = [{'type_variety': v, 'params': deepcopy(equipment['Edfa'][v].__dict__),
                 'operational': {'gain_target': 20.0, 'tilt_target': 0, 'out_voa': 0}} for v in mb.multi_band]
        el = Multiband_amplifier(uid='mb', type_variety='std_medium_gain_multiband', amplifiers=amps,
                                 params=deepcopy(mb.__dict__))
        cl = G.gen_carriers(rng, f_lo=186.3e12, f_hi=190.3e12, n_max=25, n_min=1, max_dbm=-15, min_dbm=-25)
        cc = G.gen_carriers(rng, f_lo=191.0e12, f_hi=196.3e12, n_max=40, n_min=1, max_dbm=-15, min_dbm=-25)
        cs = cl + cc
        bands = [(equipment['Edfa'][v].f_min, equipment['Edfa'][v].f_max) for v in mb.multi_band]
        expected = sorted(c['frequency'] for c in cs if any(c['frequency'] - c['slot_width'] / 2 >= lo
                                                             and c['frequency'] + c['slot_width'] / 2 <= hi
                                                             for lo, hi in bands))
        ctx.count('band_filter_checks')
        try:
            got = el(make_si(cs)).frequency.tolist()
        except ValueError:
            got = []
        if sorted(got) != expected:
            ctx.violation('multiband-dispatch', f'multiband amplifier: expected {len(expected)} channels, got {len(got)}',
                          {'missing': sorted(set(expected) - set(got))[:5], 'extra': sorted(set(got) - set(expected))[:5]})
        ctx.cls('band:multiband')


def run_case(case, ctx):
    SimParams.set_params({})
    k = case['kind']
    if k == 'cross':
        run_cross(case, ctx)
    elif k == 'synth':
        run_cross(case, ctx, synth=True)
    elif k == 'sweep':
        run_sweep(case, ctx)
    else:
        run_band(case, ctx)
