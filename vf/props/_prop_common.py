"""Scenario builder shared by the propagation-level properties (C01, C02, C05, C06, C07)."""
from copy import deepcopy
import hashlib
import json

import numpy as np

from gnpy.core.elements import Transceiver, Roadm, Fiber, RamanFiber, Edfa, Multiband_amplifier, Fused
from gnpy.core.utils import dbm2watt
from gnpy.core.parameters import SimParams

from vf import workload as W
from vf.gen import common as G

FLAVOURS = ['mesh', 'mesh', 'mesh_pd', 'mesh_pd', 'multiband', 'openroadm', 'ggn', 'raman', 'mesh', 'multiband_gen',
            'p2p', 'mesh']


def flavour(i):
    return FLAVOURS[i % len(FLAVOURS)]


def chan_tuples(s):
    # (fixtures without transmitter data carry NaN: made equal to itself)
    rows = zip(s.frequency.tolist(), s.pch.tolist(), s.sr.tolist(), s.ar.tolist(), s.nr.tolist(),
               s.cd.tolist(), s.pmd.tolist(), s.pdl.tolist(), s.latency.tolist(), s.baud_rate.tolist(),
               s.slot_width.tolist(), [str(x) for x in s.label], s.delta_pdb.tolist(), s.tx_osnr.tolist(),
               s.tx_power.tolist(), s.roll_off.tolist())
    return sorted((tuple('nan' if isinstance(x, float) and x != x else x for x in t) for t in rows),
                  key=lambda t: t[0])


def digest(obj):
    return hashlib.sha1(json.dumps(obj, sort_keys=True, default=repr).encode()).hexdigest()[:12]


def raman_fiber(rng, uid, length=None):
    length = length or G.rnd(rng, 60, 110, 2)
    pumps = [{'power': G.rnd(rng, 0.1, 0.3, 4), 'frequency': 205e12, 'propagation_direction': 'counterprop'},
             {'power': G.rnd(rng, 0.1, 0.3, 4), 'frequency': 201e12, 'propagation_direction': 'counterprop'}]
    if rng.random() < 0.3:
        pumps.append({'power': G.rnd(rng, 0.05, 0.15, 4), 'frequency': 203e12, 'propagation_direction': 'coprop'})
    if rng.random() < 0.5:
        # a pump below (some of) the channels, as in S-band / ultra-wide-band systems: it takes power from the
        # channels above it and must not add (negative) noise to them
        pumps.append({'power': G.rnd(rng, 0.02, 0.12, 4), 'frequency': G.pick(rng, [190.0e12, 190.8e12, 193.9e12]),
                      'propagation_direction': G.pick(rng, ['counterprop', 'counterprop', 'coprop'])})
        if rng.random() < 0.5:
            pumps = pumps[-1:]          # nothing but this pump: whatever noise it adds is not hidden by the others
    if rng.random() < 0.5:
        rng.shuffle(pumps)              # the pumps are a set: the order in which they are listed carries no meaning
    return {'uid': uid, 'type': 'RamanFiber', 'type_variety': 'SSMF',
            'operational': {'temperature': 283, 'raman_pumps': pumps},
            'params': {'length': length, 'loss_coef': G.pick(rng, [0.2, 0.19, 0.21]), 'length_units': 'km',
                       'att_in': 0, 'con_in': G.pick(rng, [0.5, 0, 0.3]), 'con_out': G.pick(rng, [0.5, 0, 0.3])},
            'metadata': G._loc(0, 0)}


def raman_topology(rng):
    """A - (booster with operator delta_p) - RamanFiber - B plus a plain return direction and an optional 2nd span."""
    els = [{'uid': 'trx A', 'type': 'Transceiver', 'metadata': G._loc(0, 0)},
           {'uid': 'roadm A', 'type': 'Roadm', 'params': {}, 'metadata': G._loc(0, 0)},
           {'uid': 'trx B', 'type': 'Transceiver', 'metadata': G._loc(1, 1)},
           {'uid': 'roadm B', 'type': 'Roadm', 'params': {}, 'metadata': G._loc(1, 1)}]
    cx = [('trx A', 'roadm A'), ('roadm A', 'trx A'), ('trx B', 'roadm B'), ('roadm B', 'trx B')]
    ab = []
    if rng.random() < 0.5:
        ab.append(G.gen_fiber(rng, 'fiber (A → B)-0', allow_none_con=False, max_km=100))
        b = G.gen_edfa(rng, 'amp (A → B)-0', settings='variety')
        b['operational']['delta_p'] = G.pick(rng, [0, 1.0, -1.0])
        ab.append(b)
    else:
        b = G.gen_edfa(rng, 'booster A to B', settings='variety', varieties=['std_medium_gain', 'std_low_gain'])
        b['operational']['delta_p'] = G.pick(rng, [0, 1.0, -1.0])
        ab.append(b)
    ab.append(raman_fiber(rng, 'raman (A → B)'))
    if rng.random() < 0.25:
        # the Raman fibre is spliced to a short plain fibre (a patch to the site): one span, Raman-amplified
        ab.append({'uid': 'splice (A → B)', 'type': 'Fused', 'params': {'loss': G.pick(rng, [0.3, 0.5])},
                   'metadata': G._loc(1, 1)})
        ab.append(G.gen_fiber(rng, 'tail (A → B)', length=G.pick(rng, [2.0, 5.0, 12.0]), allow_none_con=False))
    ba = [G.gen_fiber(rng, 'fiber (B → A)-0', max_km=100)]
    for e in ab + ba:
        e.pop('_settings', None)
    els += ab + ba
    u = ['roadm A'] + [e['uid'] for e in ab] + ['roadm B']
    cx += list(zip(u[:-1], u[1:]))
    u = ['roadm B'] + [e['uid'] for e in ba] + ['roadm A']
    cx += list(zip(u[:-1], u[1:]))
    return {'network_name': 'vf raman', 'elements': els,
            'connections': [{'from_node': f, 'to_node': t} for f, t in cx]}


def _uniform_req(rng, equipment, src, dst, nodes=None, *, max_launch_dbm=5.0, f_lo=None, f_hi=None, max_ch=None):
    si = equipment['SI']['default']
    sp = G.gen_uniform_spectrum_params(rng, f_lo or si.f_min, f_hi or si.f_max)
    if max_ch:
        sp['f_max'] = min(sp['f_max'], sp['f_min'] + sp['spacing'] * max_ch)
    sp['tx_power_dbm'] = min(sp['tx_power_dbm'], max_launch_dbm)
    if rng.random() < 0.25 and all(float(sp[k]).is_integer() for k in ('f_min', 'f_max', 'spacing', 'baud_rate')):
        # numbers written without decimal point or exponent in a JSON file arrive as integers
        for k in ('f_min', 'f_max', 'spacing', 'baud_rate'):
            sp[k] = int(sp[k])
    req = W.make_request(equipment, src, dst, nodes_list=nodes, loose_list=['STRICT'] * len(nodes) if nodes else None,
                         f_min=sp['f_min'], f_max=sp['f_max'], spacing=sp['spacing'], baud_rate=sp['baud_rate'],
                         roll_off=sp['roll_off'], tx_osnr=sp['tx_osnr'], tx_power=dbm2watt(sp['tx_power_dbm']),
                         equalization_offset_db=sp['delta_pdb'], power=dbm2watt(si.power_dbm))
    return req, {'uniform': sp}


def _carrier_req(rng, equipment, src, dst, nodes=None, *, max_launch_dbm=5.0, f_lo=191.4e12, f_hi=196.0e12,
                 n_max=60, n_min=2):
    carriers = G.gen_carriers(rng, f_lo=f_lo, f_hi=f_hi, n_max=n_max, n_min=n_min, max_dbm=max_launch_dbm)
    req = W.make_request(equipment, src, dst, nodes_list=nodes, loose_list=['STRICT'] * len(nodes) if nodes else None,
                         initial_spectrum=G.carriers_to_initial_spectrum(carriers))
    return req, {'carriers': len(carriers), 'first': carriers[:3]}, carriers


def build_scenario(rng, flav, ctx, *, max_launch_dbm=5.0, n_jobs=None, span_kw=None, topo_kw=None):
    """Builds a designed network of the requested flavour and a list of propagation jobs on it."""
    sim = None
    nli_method, raman = 'gn_model_analytic', False
    max_ch = None
    tk = dict(topo_kw or {})
    sk = dict(span_kw or {})
    sk.setdefault('allow_eol', True)
    if flav in ('mesh', 'mesh_pd'):
        tk.setdefault('per_degree', flav == 'mesh_pd')
        tk.setdefault('dispersion_variants', rng.random() < 0.4)
        tk.setdefault('per_freq_loss', rng.random() < 0.3)
        tk.setdefault('lumped', rng.random() < 0.3)
        hook = None
        if rng.random() < 0.35 and 'roadm_variety' not in tk:
            # ROADM type with a detailed impairment profile in which every field takes a value
            tk['roadm_variety'] = 'vf_impair_full'

            def hook(r, ej):
                ej['Roadm'].append(G.synthetic_roadm_variety(r))
        b = W.build(rng, topo_kw=tk, span_kw=sk, eqpt_hook=hook)
    elif flav == 'p2p':
        # point-to-point line without ROADMs (as the shipped edfa_example_network.json)
        ej = G.eqpt_json()
        edesc = G.vary_span_si(rng, ej, **sk)
        equipment = G.make_equipment(ej)
        tj = G.gen_p2p(rng, both=True, lumped=rng.random() < 0.3, per_freq_loss=rng.random() < 0.3)
        network = G.make_network(tj, equipment)
        G.reset_sim_params(None)
        G.design(equipment, network)
        b = {'ej': ej, 'tj': tj, 'equipment': equipment, 'network': network, 'edesc': edesc, 'tdesc': {}}
    elif flav == 'openroadm':
        name = G.pick(rng, ['eqpt_config_openroadm_ver4.json', 'eqpt_config_openroadm_ver5.json'])
        tk.setdefault('user_amps', False)
        tk.setdefault('max_km', 120)
        b = W.build(rng, eqpt_name=name, vary=False, topo_kw=tk)
    elif flav == 'ggn':
        nli_method = G.pick(rng, ['ggn_spectrally_separated', 'ggn_approx'])
        sim = {'nli_params': {'method': nli_method, 'dispersion_tolerance': 1, 'phase_shift_tolerance': 0.1,
                              'computed_number_of_channels': 3},
               'raman_params': {'flag': rng.random() < 0.5, 'result_spatial_resolution': 10e3,
                                'solver_spatial_resolution': 100}}
        raman = sim['raman_params']['flag']
        if rng.random() < 0.4:
            # the channels to compute given as a list that leaves out the outermost channel(s): the others take values
            # derived from the computed ones and must stay physical (NLI >= 0)
            sim['nli_params'].pop('computed_number_of_channels')
            sim['nli_params']['computed_channels'] = G.pick(rng, [[1, 2, 3], [2, 3], [1, 3], [2, 4]])
            if rng.random() < 0.6:
                nli_method = sim['nli_params']['method'] = 'ggn_approx'
        tk.update(n_sites=2, max_spans=2, extra_links=0)
        max_ch = 6
        b = W.build(rng, topo_kw=tk, span_kw=sk)
    elif flav == 'raman':
        raman = True
        sim = {'raman_params': {'flag': True, 'method': G.pick(rng, ['perturbative', 'perturbative', 'numerical']),
                                'order': G.pick(rng, [1, 2, 2, 3]),
                                'result_spatial_resolution': G.pick(rng, [10e3, 5e3]),
                                'solver_spatial_resolution': G.pick(rng, [100, 200])},
               'nli_params': {'method': G.pick(rng, ['gn_model_analytic', 'gn_model_analytic', 'ggn_approx']),
                              'computed_number_of_channels': 3}}
        nli_method = sim['nli_params']['method']
        ej = G.eqpt_json()
        G.vary_span_si(rng, ej, allow_policy=True, power_mode=True)
        equipment = G.make_equipment(ej)
        tj = raman_topology(rng)
        network = G.make_network(tj, equipment)
        G.reset_sim_params(sim)
        G.design(equipment, network)
        b = {'ej': ej, 'tj': tj, 'equipment': equipment, 'network': network, 'edesc': {}, 'tdesc': {}}
        max_ch = 10
    elif flav == 'multiband':
        ej = G.eqpt_json('eqpt_config_multiband.json')
        equipment = G.make_equipment(ej)
        tj = G.example_json('multiband_example_network.json')
        network = G.make_network(tj, equipment)
        G.reset_sim_params(None)
        G.design(equipment, network)
        b = {'ej': ej, 'tj': tj, 'equipment': equipment, 'network': network, 'edesc': {}, 'tdesc': {}}
    elif flav == 'multiband_gen':
        b = build_multiband(rng, dispersion_variants=bool(tk.get('dispersion_variants')))
    else:
        raise ValueError(flav)
    G.reset_sim_params(sim)
    equipment, network = b['equipment'], b['network']
    trx = W.trx_uids(network)
    pairs = [(a, z) for a in trx for z in trx if a != z]
    rng.shuffle(pairs)
    n_jobs = n_jobs or (2 if flav in ('raman', 'ggn') else 4)
    jobs = []
    for a, z in pairs[:n_jobs]:
        use_carriers = rng.random() < 0.5
        if flav in ('multiband', 'multiband_gen'):
            # spectra spanning L and C bands, with channels near band edges and in the gap
            if use_carriers:
                cl = G.gen_carriers(rng, f_lo=186.3e12, f_hi=190.2e12, n_max=20, n_min=1, max_dbm=max_launch_dbm)
                cc = G.gen_carriers(rng, f_lo=191.0e12, f_hi=196.3e12, n_max=30, n_min=1, max_dbm=max_launch_dbm)
                carriers = cl + cc
                if b['tdesc'].get('three_bands'):
                    carriers += G.gen_carriers(rng, f_lo=196.4e12, f_hi=199.6e12, n_max=20, n_min=1, max_dbm=max_launch_dbm)
                req = W.make_request(equipment, a, z, initial_spectrum=G.carriers_to_initial_spectrum(carriers))
                spec = {'carriers': len(carriers), 'first': carriers[:2]}
            else:
                req, spec = _uniform_req(rng, equipment, a, z, max_launch_dbm=max_launch_dbm,
                                         f_lo=G.pick(rng, [186.3e12, 191.3e12, 187e12]),
                                         f_hi=G.pick(rng, [196.1e12, 195e12] + ([199.6e12, 199.0e12] if b['tdesc'].get('three_bands') else [])))
        elif flav == 'openroadm' or (not use_carriers and not (sim and 'computed_channels' in sim.get('nli_params', {}))):
            req, spec = _uniform_req(rng, equipment, a, z, max_launch_dbm=max_launch_dbm, max_ch=max_ch)
        elif sim and 'computed_channels' in sim.get('nli_params', {}):
            # non-flat but moderate power differences (the interpolated NLI of a channel 25 dB weaker than its
            # neighbours exceeds its power: outside what the approximation is for)
            carriers = G.gen_carriers(rng, n_max=6, n_min=5, max_dbm=min(max_launch_dbm, 2.0), min_dbm=-1.0)
            base = carriers[0]['tx_power_dbm'] if carriers else 0
            # two groups of channels launched a few dB apart (two transponder generations); the step may sit between
            # two computed channels
            cut = max(sim['nli_params']['computed_channels'][:-1] or [2])
            step = G.pick(rng, [0, 3.0, 6.0, -3.0])
            for k, c in enumerate(carriers):
                c['tx_power_dbm'] = round(base - (step if k >= cut else 0) + rng.uniform(-0.3, 0.3), 2)
                c['delta_pdb'] = 0
            if len(carriers) < 5:
                ctx.skip('too-few-carriers-for-computed-channels')
                continue
            req = W.make_request(equipment, a, z, initial_spectrum=G.carriers_to_initial_spectrum(carriers))
            spec = {'carriers': len(carriers), 'first': carriers[:3]}
        else:
            req, spec, _ = _carrier_req(rng, equipment, a, z, max_launch_dbm=max_launch_dbm,
                                        n_max=max_ch or 60, n_min=3)
        try:
            path = W.route(network, req)
        except Exception as e:  # noqa
            ctx.skip(f'route-failed:{type(e).__name__}')
            continue
        if not path:
            ctx.skip('no-route')
            continue
        jobs.append({'path': path, 'req': req, 'spec_desc': spec,
                     'fp': (digest(b['tj']), a, z, digest(spec))})
    return {'equipment': equipment, 'network': network, 'jobs': jobs, 'nli_method': nli_method, 'raman': raman,
            'dump': {'equipment': b['ej'], 'topology': b['tj'], 'sim': sim}, 'b': b, 'sim': sim}


MB_BANDS = [{'f_min': 191.3e12, 'f_max': 196.0e12, 'spacing': 50e9},
            {'f_min': 187.0e12, 'f_max': 190.0e12, 'spacing': 50e9}]
MB_VARIETIES = ['std_low_gain_multiband_bis', 'std_medium_gain_multiband', 'std_low_gain_multiband']


def multibandify(tj, rng, varieties=MB_VARIETIES, only=None, members=None):
    """Inserts a user-placed multiband amplifier (variety given, no settings) at every ROADM/fibre junction.
    The variety is stated because auto-selection of multiband varieties is a separate, listed defect (C10)."""
    els, cx = tj['elements'], tj['connections']
    typ = {e['uid']: e['type'] for e in els}
    for c in list(cx):
        a, b = c['from_node'], c['to_node']
        ta, tb = typ[a], typ[b]
        if only is not None and not only(a, b):
            continue
        if (ta == 'Roadm' and tb == 'Fiber') or (ta == 'Fiber' and tb == 'Fiber') or (ta == 'Fiber' and tb == 'Roadm'):
            uid = f'mbamp {a} to {b}'
            variety = G.pick(rng, varieties)
            amps = []
            if members and rng.random() < 0.5:
                # per-band amplifiers listed by the user, lowest band first (the library lists C before L): the
                # order of the list is the order in which the bands are amplified and merged again
                amps = [{'type_variety': v, 'operational': {'gain_target': None, 'delta_p': None, 'tilt_target': None,
                                                            'out_voa': None}}
                        for v in reversed(members[variety])]
            els.append({'uid': uid, 'type': 'Multiband_amplifier', 'type_variety': variety,
                        'amplifiers': amps, 'metadata': G._loc(0, 0)})
            typ[uid] = 'Multiband_amplifier'
            cx.remove(c)
            cx.append({'from_node': a, 'to_node': uid})
            cx.append({'from_node': uid, 'to_node': b})


S_BAND = {'f_min': 196.6e12, 'f_max': 199.4e12, 'spacing': 50e9}


def build_multiband(rng, dispersion_variants=False, ej_hook=None, three=None):
    """Generated C+L network: every ROADM designs for two bands, every junction carries a multiband amplifier.
    In a third of the cases a third band (196.5-199.5 THz, amplifier model added to the library) is in use as well:
    the multiband amplifiers then split into and merge three spectra."""
    ej = G.eqpt_json('eqpt_config_multiband.json')
    three = rng.random() < 0.35 if three is None else three
    if three:
        ej['Edfa'].append({'type_variety': 'vf_low_gain_S', 'f_min': 196.5e12, 'f_max': 199.5e12, 'type_def': 'variable_gain',
                           'gain_flatmax': 16, 'gain_min': 8, 'p_max': 21, 'nf_min': 7, 'nf_max': 11,
                           'out_voa_auto': False, 'allowed_for_design': True})
        ej['Edfa'].append({'type_variety': 'vf_low_gain_multiband3', 'type_def': 'multi_band',
                           'amplifiers': ['std_low_gain_bis', 'std_low_gain_L', 'vf_low_gain_S'],
                           'allowed_for_design': False})
        ej['Edfa'].append({'type_variety': 'vf_low_gain_multiband3_bis', 'type_def': 'multi_band',
                           'amplifiers': ['vf_low_gain_S', 'std_low_gain', 'std_low_gain_L'],
                           'allowed_for_design': False})
    if ej_hook:
        ej_hook(ej)
    equipment = G.make_equipment(ej)
    bands = deepcopy(MB_BANDS) + ([deepcopy(S_BAND)] if three else [])

    def rp(r, s):
        return {'design_bands': deepcopy(bands)}
    tj, tdesc = G.gen_topology(rng, max_sites=4, max_spans=2, user_amps=False, fused=False, roadm_params=rp,
                               max_km=110, dispersion_variants=dispersion_variants)
    tdesc['three_bands'] = three
    members = {e['type_variety']: e['amplifiers'] for e in ej['Edfa'] if e.get('type_def') == 'multi_band'}
    if three:
        multibandify(tj, rng, varieties=['vf_low_gain_multiband3', 'vf_low_gain_multiband3_bis'], members=members)
    else:
        multibandify(tj, rng, members=members)
    network = G.make_network(tj, equipment)
    G.reset_sim_params(None)
    G.design(equipment, network)
    return {'ej': ej, 'tj': tj, 'equipment': equipment, 'network': network, 'edesc': {}, 'tdesc': tdesc}
