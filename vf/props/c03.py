"""C03 - fibre NLI equals the GN-model closed form and obeys its scaling laws.

Monitors: every NliSolver.compute_nli call made while a real Fiber element is crossed is recorded (sys.monitoring)
and compared with an independent scalar implementation of the published closed form fed from the fibre's
user-level parameters; the SNR_NLI after the crossing must be the one implied by that NLI; metamorphic laws
(non-negativity, cube law, monotonicity in load, order independence) are checked on the real solver.
"""
import math

import numpy as np

from gnpy.core.elements import Fiber
from gnpy.core.science_utils import NliSolver, RamanSolver
from gnpy.core.parameters import SimParams
from gnpy.core.info import create_arbitrary_spectral_information
from gnpy.core.utils import dbm2watt

from vf import attach
from vf.gen import common as G
from vf.ref import gn

ID = 'C03'
RULE = ('generated fibres (1 m..300 km; scalar or per-frequency loss; dispersion scalar / with slope / per-frequency; '
        'gamma or effective area; reference frequency/wavelength; connector and padding losses) x generated combs '
        '(1..120 channels, uniform or mixed baud rate / slot width / power, shuffled supply order). Non-trivial: '
        '>=2 channels and a fibre longer than 1 km. Distinct: hash of (fibre parameters, comb).')
ASSUMPTIONS = ['closed form judged for nli method gn_model_analytic only (as the statement says)',
               'for frequency-dependent parameters the (cut i, pump j) term uses the pump loss and the mean beta2 of '
               'both channels; gamma(f)/gamma(f_ref) is taken from the fibre accessor, gamma(f_ref) from the user '
               'parameters', 'agreement 1e-9 relative per channel']
REQUIRED_COUNTERS = {'compute_nli_calls_compared': 30, 'cube_law_checks': 30, 'order_checks': 30,
                     'monotonic_checks': 30, 'snr_nli_after_fiber_checks': 30, 'recrossings_after_length_change': 20, 'twin_fibre_crossings': 20,
                     'cases_with_ggn_only_options_set': 20}
CASE_TIMEOUT = {'quick': 120, 'thorough': 300}

_REC = attach.CallRecorder()


def plan(tier, seed):
    n = 2400 if tier == "quick" else 24000
    return [{'idx': i} for i in range(n)]


def gen_fibre(rng):
    r = rng.random()
    if r < 0.1:
        length_km = G.rnd(rng, 0.001, 2, 4)
    elif r < 0.7:
        length_km = G.rnd(rng, 20, 120, 3)
    else:
        length_km = G.rnd(rng, 120, 300, 3)
    p = {'length': length_km, 'length_units': 'km', 'pmd_coef': 1.265e-15,
         'con_in': G.pick(rng, [0, 0.5, 1.0, 0.25]), 'con_out': G.pick(rng, [0, 0.5, 0.3]),
         'att_in': G.pick(rng, [0, 0, 1.5, 3.0])}
    d = {'length_m': length_km * 1e3}
    base = G.rnd(rng, 0.16, 0.3, 4)
    if rng.random() < 0.35:
        fr = [184e12, 190e12, 193e12, 195.5e12, 199e12]
        val = [round(base + x, 4) for x in (0.03, 0.012, 0.0, 0.006, 0.03)]
        p['loss_coef'] = {'value': val, 'frequency': fr}
        d['loss_db_km'] = {'value': val, 'frequency': fr}
    else:
        p['loss_coef'] = base
        d['loss_db_km'] = base
    kind = G.pick(rng, ['scalar', 'scalar', 'slope', 'perfreq', 'default'])
    disp = G.pick(rng, [1.67e-05, 5e-06, 2.2e-05, 3.5e-06, -4e-06])
    if kind == 'scalar':
        p['dispersion'] = disp
        d['dispersion'] = disp
    elif kind == 'slope':
        p['dispersion'] = disp
        p['dispersion_slope'] = G.pick(rng, [58, 70, 45, 90])  # s/m/m/m (0.058 ps/nm^2/km)
        d['dispersion'] = disp
        d['dispersion_slope'] = p['dispersion_slope']
    elif kind == 'perfreq':
        fr = [184e12, 191e12, 194e12, 199e12]
        val = [disp * x for x in (1.12, 1.04, 0.99, 0.9)]
        p['dispersion_per_frequency'] = {'value': val, 'frequency': fr}
        d['dispersion_per_frequency'] = {'value': val, 'frequency': fr}
    g = G.pick(rng, ['gamma', 'aeff', 'aeff', 'default'])
    if g == 'gamma':
        p['gamma'] = G.pick(rng, [1.27e-3, 1.0e-3, 1.6e-3, 0.8e-3])
        d['gamma'] = p['gamma']
    elif g == 'aeff':
        p['effective_area'] = G.pick(rng, [83e-12, 72e-12, 125e-12, 55e-12])
        d['effective_area'] = p['effective_area']
    rf = G.pick(rng, ['default', 'default', 'freq', 'wl'])
    if rf == 'freq':
        p['ref_frequency'] = G.pick(rng, [193.5e12, 194.0e12, 192.0e12])
        d['ref_frequency'] = p['ref_frequency']
    elif rf == 'wl':
        p['ref_wavelength'] = G.pick(rng, [1550e-9, 1545e-9, 1560e-9])
        d['ref_wavelength'] = p['ref_wavelength']
    return p, d, {'disp': kind, 'gamma': g, 'ref': rf, 'loss': 'perfreq' if isinstance(p['loss_coef'], dict) else 'scalar'}


def make_si(carriers, order=None, scale=1.0, bump=None):
    cs = list(carriers)
    if order is not None:
        cs = [cs[i] for i in order]
    pw = [dbm2watt(c['tx_power_dbm']) * scale for c in cs]
    if bump is not None:
        pw = [p * (bump[1] if c['frequency'] == bump[0] else 1.0) for p, c in zip(pw, cs)]
    return create_arbitrary_spectral_information(
        frequency=np.array([c['frequency'] for c in cs]), pch=np.array(pw),
        baud_rate=np.array([c['baud_rate'] for c in cs]), slot_width=np.array([c['slot_width'] for c in cs]),
        roll_off=np.array([c['roll_off'] for c in cs]), tx_osnr=np.array([c['tx_osnr'] for c in cs]),
        tx_power=np.array(pw), delta_pdb_per_channel=np.zeros(len(cs)), label=np.array([c['label'] for c in cs]))


def rel_dev(a, b):
    a = np.asarray(a, dtype=float)
    b = np.asarray(b, dtype=float)
    with np.errstate(all='ignore'):
        d = np.abs(a - b) / np.maximum(np.abs(a), np.abs(b))
    d[~np.isfinite(d)] = 0.0 if np.array_equal(a, b) else np.inf
    return float(d.max()) if d.size else 0.0


def _snap_nli_args(args):
    si = args['spectral_info']
    return {'pch': si.pch.copy(), 'frequency': si.frequency.copy(), 'baud_rate': si.baud_rate.copy(),
            'fiber': args['fiber']}


def run_case(case, ctx):
    rng = ctx.rng
    SimParams.set_params({})
    attach.install()
    for rep in range(3):
        # the options that restrict the computed channels belong to the generalised GN methods: with the analytic
        # method every channel gets the closed form whatever they say
        opt = G.pick(rng, [None, None, None, 'number', 'list'])
        nli = {'method': 'gn_model_analytic'}
        if opt == 'number':
            nli['computed_number_of_channels'] = G.pick(rng, [1, 2, 3, 5])
        elif opt == 'list':
            nli['computed_channels'] = sorted(rng.sample(range(1, 8), rng.randint(1, 3)))
        SimParams.set_params({'nli_params': nli} if opt else {})
        if opt:
            ctx.count('cases_with_ggn_only_options_set')
        fparams, fdefkw, fdesc = gen_fibre(rng)
        fiber = Fiber(uid='fibre under test', type_variety='SSMF', params=dict(fparams))
        fiber.ref_pch_in_dbm = 0.0
        fdef = gn.FibreDef(**fdefkw)
        uniform = rng.random() < 0.4
        carriers = G.gen_carriers(rng, n_max=G.pick(rng, [1, 2, 5, 12, 40, 80, 120]), n_min=1, max_dbm=5.0,
                                  min_dbm=-12.0)
        if uniform and carriers:
            k = carriers[0]
            for i, c in enumerate(carriers):
                c.update({kk: k[kk] for kk in ('slot_width', 'baud_rate', 'roll_off', 'tx_power_dbm', 'label')})
                c['frequency'] = carriers[0]['frequency'] + i * k['slot_width']
            carriers = [c for c in carriers if c['frequency'] + c['slot_width'] / 2 <= 196.05e12]
        if carriers and rng.random() < 0.25:
            # carrier distances that are not multiples of any grid step: the comb is stretched by a factor close to one
            # (47 GHz instead of 50 GHz ...), slots stay non-overlapping; the closed form is evaluated on the true
            # distances
            f0 = carriers[0]['frequency']
            stretch = G.pick(rng, [1.06, 1.013, 1.1337])
            for c in carriers:
                c['frequency'] = f0 + (c['frequency'] - f0) * stretch + 1.7e9
            carriers = [c for c in carriers if c['frequency'] + c['slot_width'] / 2 <= 199e12]
            ctx.count('combs_off_any_grid')
        if not carriers:
            continue
        n = len(carriers)
        freqs = [c['frequency'] for c in carriers]

        # (0) the fibre's own accessors against the parameter definitions
        f_arr = np.array(freqs)
        dev = max(rel_dev(np.atleast_1d(fiber.alpha(f_arr)), [fdef.alpha(f) for f in freqs]),
                  rel_dev(np.atleast_1d(fiber.beta2(f_arr)), [fdef.beta2(f) for f in freqs]),
                  rel_dev([float(fiber.gamma(fdef.f_ref))], [fdef.gamma_ref]))
        ctx.count('accessor_checks')
        if dev > 1e-11:
            ctx.violation('fibre-parameter-definition', f'alpha/beta2/gamma accessor deviates from its definition '
                          f'(rel {dev:.2e})', {'fibre': fparams})
        g_ref = float(fiber.gamma(fdef.f_ref))
        gamma_ratio = [float(fiber.gamma(f)) / g_ref for f in freqs]

        # (1) crossing of the real element with the compute_nli call recorded
        order = list(range(n))
        rng.shuffle(order)
        si = make_si(carriers, order=order)
        _REC.clear()
        if not _REC.codes:
            _REC.watch(NliSolver.compute_nli, 'compute_nli', snap=_snap_nli_args)
        _REC.start()
        attach.reset()
        try:
            out = fiber(si)
        finally:
            _REC.stop()
        recs = [r for r in _REC.records if r['name'] == 'compute_nli' and r['done']]
        if len(recs) != 1:
            ctx.violation('nli-call-count', f'crossing a fibre called the NLI solver {len(recs)} times')
            return
        rec = recs[0]
        ref = gn.gn_nli(fdef, rec['args']['frequency'].tolist(), rec['args']['baud_rate'].tolist(),
                        rec['args']['pch'].tolist(), gamma_ratio=[gamma_ratio[freqs.index(f)]
                                                                   for f in rec['args']['frequency'].tolist()])
        got = np.asarray(rec['ret'], dtype=float)
        ctx.count('compute_nli_calls_compared')
        ctx.count('channels_compared', n)
        d = rel_dev(got, ref)
        if d > 1e-9 or got.shape != (n,):
            k = int(np.argmax(np.abs(got - np.array(ref)) / np.array(ref))) if got.shape == (n,) else 0
            ctx.violation('closed-form', f'NLI differs from the GN closed form: rel dev {d:.3e} '
                          f'(channel {k}: got {got[k] if got.shape == (n,) else got}, reference {ref[k]})',
                          {'fibre': fparams, 'carriers': carriers[:8], 'n': n, 'got': got[:8], 'ref': ref[:8]})
        # (1b) history: the same Fiber object crossed again by the same comb after its length was changed through the
        # public setter (what auto-design itself does when it splits a fibre): the NLI must be that of the fibre as it
        # is now, not of the fibre as it was
        if rng.random() < 0.35 and d <= 1e-9:
            new_len = fdef.length * G.pick(rng, [0.125, 0.25, 0.5, 2.0, 3.0])
            fiber.params.length = new_len
            fdef2 = gn.FibreDef(**dict(fdefkw, length_m=new_len))
            _REC.clear()
            _REC.start()
            try:
                fiber(make_si(carriers, order=order))
            finally:
                _REC.stop()
            recs2 = [r for r in _REC.records if r['name'] == 'compute_nli' and r['done']]
            ctx.count('recrossings_after_length_change')
            if len(recs2) == 1:
                r2 = recs2[0]
                ref2 = gn.gn_nli(fdef2, r2['args']['frequency'].tolist(), r2['args']['baud_rate'].tolist(),
                                 r2['args']['pch'].tolist(), gamma_ratio=[gamma_ratio[freqs.index(f)]
                                                                         for f in r2['args']['frequency'].tolist()])
                d2 = rel_dev(np.asarray(r2['ret'], dtype=float), ref2)
                if d2 > 1e-9:
                    ctx.violation('closed-form-after-length-change', f'fibre object re-used after its length was set from '
                                  f'{fdef.length:.1f} m to {new_len:.1f} m: NLI differs from the closed form of the new '
                                  f'length (rel dev {d2:.3e}; vs the old length {rel_dev(np.asarray(r2["ret"], dtype=float), ref):.3e})',
                                  {'fibre': fparams, 'new_length_m': new_len})
            fiber.params.length = fdef.length
        # (1c) history: a twin fibre - another Fiber object with the same parameters except one - crossed by the same
        # comb right afterwards in the same process: its NLI is its own closed form, not the first fibre's
        if rng.random() < 0.35 and d <= 1e-9:
            tp, tkw = dict(fparams), dict(fdefkw)
            how = G.pick(rng, ['slope', 'slope', 'dispersion', 'loss', 'gamma'])
            if how == 'slope' and 'dispersion_per_frequency' not in tp:
                tp['dispersion'] = tkw['dispersion'] = tp.get('dispersion', 1.67e-05)
                tp['dispersion_slope'] = tkw['dispersion_slope'] = G.pick(rng, [x for x in (58, 70, 45, 90)
                                                                               if x != tp.get('dispersion_slope')])
            elif how == 'dispersion' and 'dispersion_per_frequency' not in tp:
                tp['dispersion'] = tkw['dispersion'] = tp.get('dispersion', 1.67e-05) * 1.3
            elif how == 'loss' and not isinstance(tp['loss_coef'], dict):
                tp['loss_coef'] = tkw['loss_db_km'] = round(tp['loss_coef'] + 0.013, 4)
            elif how == 'gamma' and 'gamma' in tp:
                tp['gamma'] = tkw['gamma'] = tp['gamma'] * 1.2
            else:
                tp['length'] = round(tp['length'] * 0.7, 4)
                tkw['length_m'] = tp['length'] * 1e3
            twin = Fiber(uid='twin fibre', type_variety='SSMF', params=dict(tp))
            twin.ref_pch_in_dbm = 0.0
            tdef = gn.FibreDef(**tkw)
            tg = float(twin.gamma(tdef.f_ref))
            tratio = [float(twin.gamma(f)) / tg for f in freqs]
            _REC.clear()
            _REC.start()
            try:
                twin(make_si(carriers, order=order))
            finally:
                _REC.stop()
            recs3 = [r for r in _REC.records if r['name'] == 'compute_nli' and r['done']]
            ctx.count('twin_fibre_crossings')
            if len(recs3) == 1:
                r3 = recs3[0]
                ref3 = gn.gn_nli(tdef, r3['args']['frequency'].tolist(), r3['args']['baud_rate'].tolist(),
                                 r3['args']['pch'].tolist(), gamma_ratio=[tratio[freqs.index(f)]
                                                                         for f in r3['args']['frequency'].tolist()])
                d3 = rel_dev(np.asarray(r3['ret'], dtype=float), ref3)
                if d3 > 1e-9:
                    ctx.violation('closed-form-twin-fibre', f'a second fibre that differs from the first one in its {how} '
                                  f'only, crossed by the same comb: NLI differs from its own closed form (rel dev {d3:.3e})',
                                  {'first': fparams, 'twin': tp})
        # launch power entering the fibre = launched / (con_in + att_in)
        att = 10 ** (-(fparams['con_in'] + fparams['att_in']) / 10)
        p_exp = np.sort(np.array(freqs)), None
        ev = attach.EVENTS[0]
        b, a = ev['before'], ev['after']
        pin = b.pch * att
        if rel_dev(rec['args']['pch'], pin) > 1e-12:
            ctx.violation('nli-input-power', 'NLI was not evaluated on the power after input connector and padding',
                          {'expected': pin[:6], 'seen': rec['args']['pch'][:6]})
        x = np.array(ref) / pin
        if np.all(x < 0.5):
            nr_exp = b.nr * (1 - x) + x
            ctx.count('snr_nli_after_fiber_checks')
            if rel_dev(a.nr, nr_exp) > 1e-9:
                ctx.violation('snr-nli-after-fibre', 'SNR_NLI after the fibre is not the one implied by the closed form',
                              {'fibre': fparams, 'nr_after': a.nr[:6], 'expected': nr_exp[:6]})
        else:
            ctx.skip('nli-above-half-channel-power')

        # (2) laws on the real solver
        # the solver is called the way Fiber.propagate calls it: with the power profile computed for this very spectrum;
        # in a third of the cases the Raman computation is on (stimulated scattering resolved): the analytic GN method
        # is defined on the fibre's loss coefficient all the same, so its laws hold exactly
        raman_on = rng.random() < 0.3 and n <= 40
        old_raman = SimParams._shared_dict['raman_params']
        if raman_on:
            from gnpy.core.parameters import RamanParams
            SimParams._shared_dict['raman_params'] = RamanParams(flag=True, result_spatial_resolution=10e3,
                                                                 solver_spatial_resolution=10e3)
            ctx.count('law_checks_with_raman_on')

        def nli_of(si_x):
            return NliSolver.compute_nli(si_x, RamanSolver.calculate_stimulated_raman_scattering(si_x, fiber), fiber)
        base_si = make_si(carriers)
        nli0 = np.asarray(nli_of(base_si), dtype=float)
        ctx.count('nonneg_checks')
        if np.any(nli0 < 0) or not np.all(np.isfinite(nli0)):
            ctx.violation('nli-negative', 'negative or non-finite NLI', {'nli': nli0[:8], 'fibre': fparams})
        k = G.pick(rng, [0.5, 2.0, 3.0, 0.1, 10 ** 0.13])
        nli_k = np.asarray(nli_of(make_si(carriers, scale=k)), dtype=float)
        ctx.count('cube_law_checks')
        if rel_dev(nli_k, nli0 * k ** 3) > 1e-11:
            ctx.violation('cube-law', f'common power factor {k}: NLI did not scale with k^3 '
                          f'(rel dev {rel_dev(nli_k, nli0 * k ** 3):.2e})', {'fibre': fparams, 'n': n})
        order = list(range(n))
        rng.shuffle(order)
        nli_o = np.asarray(nli_of(make_si(carriers, order=order)), dtype=float)
        ctx.count('order_checks')
        if rel_dev(nli_o, nli0) > 1e-12:
            ctx.violation('order-dependence', f'NLI depends on the supply order (rel dev {rel_dev(nli_o, nli0):.2e})',
                          {'fibre': fparams, 'order': order[:20]})
        # the other way of supplying channels: a {frequency: Carrier} mapping filled in any order
        from gnpy.core.info import carriers_to_spectral_information
        shuffled = [carriers[i] for i in order]
        si_m = carriers_to_spectral_information(G.carriers_to_initial_spectrum(shuffled), power=1e-3)
        nli_m = np.asarray(nli_of(si_m), dtype=float)
        ctx.count('order_checks_mapping')
        if rel_dev(nli_m, nli0) > 1e-12:
            ctx.violation('order-dependence', 'NLI depends on the order in which the {frequency: Carrier} mapping was '
                          f'filled (rel dev {rel_dev(nli_m, nli0):.2e})', {'fibre': fparams, 'order': order[:20]})
        if n >= 2:
            # raise one channel's power
            j = rng.randrange(n)
            nli_b = np.asarray(nli_of(make_si(carriers, bump=(freqs[j], 1.7))), dtype=float)
            ctx.count('monotonic_checks')
            if np.any(nli_b < nli0 * (1 - 1e-12)):
                ctx.violation('not-monotonic-in-power', f'raising channel {j} lowered some NLI',
                              {'fibre': fparams, 'before': nli0[:8], 'after': nli_b[:8]})
            # remove one channel: every remaining channel's NLI must not increase
            keep = [c for i, c in enumerate(carriers) if i != j]
            nli_r = np.asarray(nli_of(make_si(keep)), dtype=float)
            full = np.delete(nli0, j)
            ctx.count('monotonic_checks')
            if np.any(full < nli_r * (1 - 1e-12)):
                ctx.violation('not-monotonic-in-channels', f'adding channel {j} lowered some NLI',
                              {'fibre': fparams, 'without': nli_r[:8], 'with': full[:8]})
        SimParams._shared_dict['raman_params'] = old_raman
        # (3) the same laws for the generalised GN methods on small combs (no closed form is claimed for them)
        if 3 <= n <= 6 and fparams['length'] > 1 and rng.random() < 0.5:
            method = G.pick(rng, ['ggn_spectrally_separated', 'ggn_approx'])
            SimParams.set_params({'nli_params': {'method': method, 'dispersion_tolerance': 4,
                                                 'phase_shift_tolerance': 0.5}})
            try:
                def ggn(si_):
                    srs_ = RamanSolver.calculate_stimulated_raman_scattering(si_, fiber)
                    return np.asarray(NliSolver.compute_nli(si_, srs_, fiber), dtype=float)
                g0 = ggn(make_si(carriers))
                ctx.count('ggn_law_checks')
                if np.any(g0 < 0) or not np.all(np.isfinite(g0)):
                    ctx.violation('nli-negative', f'{method}: negative or non-finite NLI', {'nli': g0, 'fibre': fparams})
                gk = ggn(make_si(carriers, scale=k))
                if rel_dev(gk, g0 * k ** 3) > 1e-10:
                    ctx.violation('cube-law', f'{method}: common power factor {k}: NLI did not scale with k^3 '
                                  f'(rel dev {rel_dev(gk, g0 * k ** 3):.2e})', {'fibre': fparams, 'n': n})
                go = ggn(make_si(carriers, order=order))
                if rel_dev(go, g0) > 1e-9:
                    ctx.violation('order-dependence', f'{method}: NLI depends on the supply order '
                                  f'(rel dev {rel_dev(go, g0):.2e})', {'fibre': fparams})
                ctx.cls(f'ggn:{method}')
            finally:
                SimParams.set_params({})
        ctx.cls(f'disp:{fdesc["disp"]}', f'gamma:{fdesc["gamma"]}', f'loss:{fdesc["loss"]}', f'ref:{fdesc["ref"]}',
                'comb:uniform' if uniform else 'comb:mixed', f'n:{min(n, 100) // 20 * 20}+')
        if n >= 2 and fparams['length'] > 1:
            ctx.nontrivial((fparams, [(c['frequency'], c['baud_rate'], c['tx_power_dbm']) for c in carriers]))
        if not ctx.samples:
            ctx.sample({'fibre': fparams, 'channels': n, 'uniform': uniform, 'first_carriers': carriers[:3],
                        'max_rel_dev_vs_closed_form': d})
        if ctx.violations:
            ctx.dump.update({'fibre': fparams, 'carriers': carriers})
            return
