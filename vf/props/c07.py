"""C07 - the launched channel set survives the path intact; channel order is irrelevant.

Monitor: exactly-once checker over the channel identity tuples recorded at launch, after the pre-propagation
filter and after every element (with call depth: the per-band amplifiers nested in a multiband amplifier each see
a partial view; those views must be pairwise disjoint and their union must equal the parent's input/output).
The expected survivor set is computed independently from the amplifier bands of the path.
"""
import json
from copy import deepcopy

import numpy as np

from gnpy.core.elements import Edfa, Multiband_amplifier
from gnpy.core.exceptions import SpectrumError
from gnpy.core.info import create_arbitrary_spectral_information
from gnpy.core.parameters import SimParams
from gnpy.core.utils import dbm2watt

from vf import attach, workload as W
from vf.gen import common as G
from vf.props import _prop_common as P
from vf import stock

ID = 'C07'
RULE = ('generated spectra (uniform grids and arbitrary carrier lists with channels exactly on band edges, 1 Hz '
        'outside, in the C/L gap, one channel alone in a band, shuffled supply order) x routes in single-band, '
        'narrow-band-amplifier, shipped multiband and generated C+L networks; plus invalid spectra (overlap, baud > '
        'slot, dimension mismatch). Non-trivial: >=2 launched channels of which at least one is removed by the band '
        'filter or lies within one slot width of a band edge, or a multiband path. Distinct: hash of (topology, route, '
        'spectrum).')
ASSUMPTIONS = ['amplifier bands are read from the loaded equipment library (f_min, f_max per model)',
               'paths without any amplifier are not judged (the statement defines the filter by the amplifiers)',
               'order independence to 1e-12 relative on the receiver figures']
REQUIRED_COUNTERS = {'stock_tests_run': 5, 'stock_element_identity_checks': 300, 'launch_filter_checks': 40, 'element_identity_checks': 300, 'multiband_partition_checks': 20,
                     'order_independence_checks': 15, 'invalid_spectrum_checks': 10, 'edge_channels': 20}
CASE_TIMEOUT = {'quick': 400, 'thorough': 1800}
FLAVS = ['multiband', 'multiband_gen', 'narrow', 'mesh', 'multiband_gen', 'multiband', 'narrow', 'invalid', 'wide_mixed',
         'multiband_touch']


def plan(tier, seed):
    n = 900 if tier == 'quick' else 12000
    cases = [{'idx': i, 'flavour': FLAVS[i % len(FLAVS)]} for i in range(n)]
    # the repository's own tests as one more workload, with the monitors on (channel identity at every element)
    return cases + stock.stock_cases(tier, n, ID)


def build_narrow(rng):
    """Single-band mesh where some user-placed amplifiers are narrower-band models."""
    ej = G.eqpt_json()
    x = G.eqpt_json('extra_eqpt_config.json')
    ej['Edfa'] += x['Edfa']
    ej['Edfa'].append({'type_variety': 'vf_narrow_hi', 'type_def': 'variable_gain', 'f_min': 192.6e12, 'f_max': 196.125e12,
                       'gain_flatmax': 26, 'gain_min': 15, 'p_max': 23, 'nf_min': 6, 'nf_max': 10,
                       'out_voa_auto': False, 'allowed_for_design': False})
    G.vary_span_si(rng, ej)
    extra = {'user_edfa_config.json': json.loads((G.TESTDATA / 'user_edfa_config.json').read_text())}
    equipment = G.make_equipment(ej, extra)
    tj, tdesc = G.gen_topology(rng, max_sites=4, max_spans=3, fused=True,
                               amp_varieties=['user_defined', 'vf_narrow_hi', 'std_medium_gain', 'std_low_gain'])
    network = G.make_network(tj, equipment)
    SimParams.set_params({})
    G.design(equipment, network)
    return {'ej': ej, 'tj': tj, 'equipment': equipment, 'network': network}


def amp_bands_of(el):
    if isinstance(el, Multiband_amplifier):
        return [(a.params.f_min, a.params.f_max) for a in el.amplifiers.values()]
    return [(el.params.f_min, el.params.f_max)]


def edge_carriers(rng, edges, f_lo, f_hi):
    """Carrier list with channels glued to the given band edges (inside, exactly on, 1 Hz outside) and fillers."""
    cs = []
    for e in edges:
        if rng.random() < 0.2:
            # a channel centred ON the edge: half of its slot lies outside this band (where two bands share the edge the
            # channel is in neither of them)
            slot = G.pick(rng, [50e9, 75e9, 100e9])
            cs.append({'frequency': float(e), 'slot_width': slot, 'baud_rate': G.pick(rng, [28e9, 32e9, 44e9]),
                       'roll_off': 0.15, 'tx_osnr': 40, 'tx_power_dbm': G.rnd(rng, -6, 3, 2), 'delta_pdb': 0,
                       'label': f'astride-{len(cs)}'})
            continue
        if rng.random() < 0.75:
            slot = G.pick(rng, [37.5e9, 50e9, 75e9, 100e9])
            side = G.pick(rng, [+1, -1])                  # channel lies above (+1) or below (-1) the edge
            off = G.pick(rng, [0, 0, 1, -1, 2e9, -2e9])
            f = e + side * slot / 2 + off
            baud = G.pick(rng, [b for b in (28e9, 32e9, 44e9, 60e9, 64e9, 90e9) if b <= slot])
            cs.append({'frequency': float(f), 'slot_width': slot, 'baud_rate': baud, 'roll_off': 0.15,
                       'tx_osnr': G.pick(rng, [40, 36]), 'tx_power_dbm': G.rnd(rng, -6, 3, 2),
                       'delta_pdb': G.pick(rng, [0, 1.0, -1.0]), 'label': f'edge-{len(cs)}'})
    fill = G.gen_carriers(rng, f_lo=f_lo, f_hi=f_hi, n_max=G.pick(rng, [0, 3, 10, 40]), n_min=0, max_dbm=3)
    cs += fill
    cs.sort(key=lambda c: c['frequency'])
    out = []
    for c in cs:
        if out and c['frequency'] - c['slot_width'] / 2 < out[-1]['frequency'] + out[-1]['slot_width'] / 2:
            continue
        out.append(c)
    return out


def identity_of_carriers(carriers):
    return sorted((float(c['frequency']), float(c['baud_rate']), float(c['slot_width']), str(c['label']),
                   float(dbm2watt(c['tx_power_dbm'])), float(c['tx_osnr']), float(c['delta_pdb']), float(c['roll_off']))
                  for c in carriers)


def survives(c, amps_bands):
    lo, hi = c['frequency'] - c['slot_width'] / 2, c['frequency'] + c['slot_width'] / 2
    return all(any(lo >= b0 and hi <= b1 for b0, b1 in bands) for bands in amps_bands)


def check_path(ctx, scen, path, req, carriers, rng):
    equipment = scen['equipment']
    amps = [n for n in path if isinstance(n, (Edfa, Multiband_amplifier))]
    if not amps:
        ctx.skip('path-without-amplifier')
        return None
    ab = [amp_bands_of(a) for a in amps]
    expected = [c for c in carriers if survives(c, ab)]
    edges = sorted({e for bands in ab for b in bands for e in b})
    near = sum(1 for c in carriers if any(abs(abs(c['frequency'] - e) - c['slot_width'] / 2) <= 2.1e9 for e in edges))
    ctx.count('edge_channels', near)
    ctx.count('launch_filter_checks')
    try:
        p, si, events, _ = W.propagate_copy(path, req, equipment)
    except W.NoChannelInBand:
        if expected:
            ctx.violation('filter-raised', f'{len(expected)} launched channels lie inside every amplifier band but '
                          'propagation stopped with "band does not match"', {'expected': expected[:4]})
        else:
            ctx.cls('all-channels-outside')
        return None
    if not expected:
        ctx.violation('filter-kept-outside', 'no launched channel lies inside the common band but propagation went on',
                      {'got': events[0]['before'].frequency[:6]})
        return None
    exp_id = identity_of_carriers(expected)
    top = [e for e in events if e['depth'] == 0]
    first = top[0]['before']
    got_id = sorted(first.identity())
    if got_id != exp_id:
        missing = [t for t in exp_id if t not in got_id][:4]
        extra = [t for t in got_id if t not in exp_id][:4]
        ctx.violation('launch-filter', f'after the pre-propagation filter {len(got_id)} channels, expected '
                      f'{len(exp_id)} (in all amplifier bands)', {'missing': missing, 'unexpected': extra,
                                                                  'bands': ab[:6]})
        return None
    ref = first.identity()
    for e in top:
        for tag in ('before', 'after'):
            s = e[tag]
            if s is None:
                continue
            ctx.count('element_identity_checks')
            ident = s.identity()
            if ident != ref:
                ctx.violation('channel-set-changed', f'{tag} {e["type"]} {e["uid"]}: channel list differs from the '
                              f'launched survivors ({len(ident)} vs {len(ref)} channels)',
                              {'missing': [t for t in ref if t not in ident][:4],
                               'unexpected': [t for t in ident if t not in ref][:4]})
                return None
            if np.any(np.diff(s.frequency) <= 0):
                ctx.violation('not-sorted', f'{tag} {e["type"]} {e["uid"]}: frequencies not strictly increasing')
                return None
            if len(set(s.lengths().values())) != 1:
                ctx.violation('array-lengths', f'{tag} {e["type"]} {e["uid"]}: per-channel arrays differ in length',
                              s.lengths())
                return None
    # nested per-band views inside multiband amplifiers
    for i, e in enumerate(events):
        if e['type'] == 'Multiband_amplifier' and e['depth'] == 0 and e['after'] is not None:
            kids = []
            for k in events[i + 1:]:
                if k['depth'] == 0:
                    break
                if k['depth'] == 1:
                    kids.append(k)
            ctx.count('multiband_partition_checks')
            fin = [f for k in kids for f in k['before'].frequency.tolist()]
            fout = [f for k in kids if k['after'] is not None for f in k['after'].frequency.tolist()]
            if sorted(fin) != e['before'].frequency.tolist() or len(set(fin)) != len(fin):
                ctx.violation('multiband-partition', f'{e["uid"]}: per-band inputs are not a partition of the input '
                              f'({len(fin)} handled, {len(set(fin))} distinct, {e["before"].n} entered)')
                return None
            if sorted(fout) != e['after'].frequency.tolist():
                ctx.violation('multiband-merge', f'{e["uid"]}: merged output is not the union of the per-band outputs')
                return None
    rx = p[-1]
    if len(rx.snr) != len(ref) or list(rx.propagated_labels) != [t[3] for t in ref]:
        ctx.violation('receiver-channel-set', 'receiver figures do not match the surviving channel list')
        return None
    return {'rx': rx, 'si': si, 'n_expected': len(expected), 'n_launched': len(carriers), 'near': near,
            'multiband': any(isinstance(a, Multiband_amplifier) for a in amps)}


def run_invalid(case, ctx):
    rng = ctx.rng
    for _ in range(8):
        cs = G.gen_carriers(rng, n_max=10, n_min=3)
        if len(cs) < 3:
            continue
        kind = G.pick(rng, ['overlap', 'baud', 'dimension', 'overlap-touching-ok'])
        kw = dict(frequency=np.array([c['frequency'] for c in cs]), pch=np.array([1e-3] * len(cs)),
                  baud_rate=np.array([c['baud_rate'] for c in cs]), slot_width=np.array([c['slot_width'] for c in cs]),
                  roll_off=0.15, tx_osnr=40.0, tx_power=1e-3)
        order = list(range(len(cs)))
        rng.shuffle(order)
        ctx.count('invalid_spectrum_checks')
        expect_error = True
        if kind == 'overlap':
            j = rng.randrange(1, len(cs))
            kw['frequency'][j] = kw['frequency'][j - 1] + (kw['slot_width'][j - 1] + kw['slot_width'][j]) / 2 - \
                G.pick(rng, [1.0, 1e9, 12.5e9])
        elif kind == 'baud':
            j = rng.randrange(len(cs))
            kw['baud_rate'][j] = kw['slot_width'][j] + G.pick(rng, [1.0, 1e9])
        elif kind == 'dimension':
            kw['baud_rate'] = kw['baud_rate'][:-1]
        else:
            # exactly touching slots are valid
            f = [cs[0]['frequency']]
            for a, b in zip(cs[:-1], cs[1:]):
                f.append(f[-1] + (a['slot_width'] + b['slot_width']) / 2)
            kw['frequency'] = np.array(f)
            expect_error = False
        if kind != 'dimension':
            for k in ('frequency', 'baud_rate', 'slot_width'):
                kw[k] = kw[k][order]
        try:
            create_arbitrary_spectral_information(**kw)
            raised = None
        except SpectrumError as e:
            raised = 'SpectrumError'
        except Exception as e:  # noqa
            raised = type(e).__name__
        ctx.cls(f'invalid:{kind}')
        ctx.nontrivial(('invalid', kind, [c['frequency'] for c in cs], order))
        if expect_error and raised != 'SpectrumError':
            ctx.violation('invalid-spectrum-accepted', f'{kind}: expected a spectrum error, got {raised}',
                          {'frequency': kw['frequency'][:6], 'slot': kw['slot_width'][:6], 'baud': kw['baud_rate'][:6]})
        if not expect_error and raised:
            ctx.violation('valid-spectrum-rejected', f'touching slots rejected with {raised}')
    if not ctx.samples:
        ctx.sample({'kind': 'invalid spectra', 'n': 8})


def run_case(case, ctx):
    if case.get('kind') == 'stock':
        return stock.run_stock_case(case, ctx, ID)
    rng = ctx.rng
    flav = case['flavour']
    if flav == 'invalid':
        return run_invalid(case, ctx)
    if flav == 'wide_mixed':
        # some links amplified by a single wide-band model (one band over L and C), the others by C+L multiband
        # amplifiers: whichever is crossed first, the common band of a route is the intersection of all of them
        from vf.props.c15 import build_mixed
        from gnpy.core.exceptions import NetworkTopologyError, ConfigurationError
        try:
            scen = build_mixed(rng, wide=True)
        except (NetworkTopologyError, ConfigurationError) as e:
            ctx.reject(f'{type(e).__name__}: {str(e)[:120]}')
            return
        SimParams.set_params({})
    elif flav == 'multiband_touch':
        # C+L amplifiers whose two bands are contiguous (the L band ends where the C band starts)
        def touch(ej):
            for e in ej['Edfa']:
                if e.get('type_def') == 'multi_band' or 'f_min' not in e:
                    continue
                if e['f_max'] < 191e12:
                    e['f_max'] = 191.25e12
                elif e['f_min'] < 192e12:
                    e['f_min'] = 191.25e12
        b = P.build_multiband(rng, ej_hook=touch, three=False)
        scen = {'equipment': b['equipment'], 'network': b['network'], 'tj': b['tj'], 'ej': b['ej']}
        ctx.count('networks_with_contiguous_bands')
        SimParams.set_params({})
    elif flav == 'narrow':
        scen = build_narrow(rng)
        SimParams.set_params({})
    else:
        scen = P.build_scenario(rng, flav, ctx, n_jobs=1)
        scen = {'equipment': scen['equipment'], 'network': scen['network'], 'tj': scen['b']['tj'], 'ej': scen['b']['ej']}
    equipment, network = scen['equipment'], scen['network']
    trx = W.trx_uids(network)
    pairs = [(a, z) for a in trx for z in trx if a != z]
    rng.shuffle(pairs)
    for a, z in pairs[:4]:
        probe = W.make_request(equipment, a, z)
        path = W.route(network, probe)
        if not path:
            continue
        amps = [n for n in path if isinstance(n, (Edfa, Multiband_amplifier))]
        edges = sorted({e for am in amps for b in amp_bands_of(am) for e in b})
        multiband = flav.startswith('multiband') or flav == 'wide_mixed'   # (multiband_touch included)
        f_lo, f_hi = (186.2e12, 196.4e12) if multiband else (190.9e12, 196.5e12)
        carriers = edge_carriers(rng, edges, f_lo, f_hi)
        if rng.random() < 0.15 and multiband and carriers:
            # one channel alone in the L band
            cc = [c for c in carriers if c['frequency'] > 191e12]
            ll = [c for c in carriers if c['frequency'] < 190.3e12][:1]
            carriers = ll + cc
        if len(carriers) < 1:
            continue
        req = W.make_request(equipment, a, z, initial_spectrum=G.carriers_to_initial_spectrum(carriers))
        res = check_path(ctx, scen, path, req, carriers, rng)
        if ctx.violations:
            ctx.dump.update({'equipment': scen.get('ej'), 'topology': scen.get('tj'), 'carriers': carriers})
            return
        if res is None:
            continue
        # same channels supplied in another order: identical per-channel results
        shuffled = carriers[:]
        rng.shuffle(shuffled)
        req2 = W.make_request(equipment, a, z, initial_spectrum=G.carriers_to_initial_spectrum(shuffled))
        try:
            p2, si2, _, _ = W.propagate_copy(path, req2, equipment)
        except W.NoChannelInBand:
            ctx.violation('order-dependence', 'shuffled supply order: propagation refused')
            return
        ctx.count('order_independence_checks')
        rx, rx2 = res['rx'], p2[-1]
        for k in ('snr', 'osnr_ase', 'osnr_nli', 'snr_01nm', 'chromatic_dispersion', 'pmd'):
            x, y = np.asarray(getattr(rx, k), dtype=float), np.asarray(getattr(rx2, k), dtype=float)
            if x.shape != y.shape or np.any(np.abs(x - y) > 1e-12 * np.maximum(np.abs(x), 1)):
                ctx.violation('order-dependence', f'receiver {k} depends on the order in which channels were supplied',
                              {'a': x[:6], 'b': y[:6]})
                return
        ctx.cls(f'net:{flav}', 'removed:some' if res['n_expected'] < res['n_launched'] else 'removed:none',
                'multiband-path' if res['multiband'] else 'singleband-path')
        if res['n_launched'] >= 2 and (res['n_expected'] < res['n_launched'] or res['near'] or res['multiband']):
            ctx.nontrivial((P.digest(scen.get('tj')), a, z, [(c['frequency'], c['slot_width']) for c in carriers]))
        if not ctx.samples:
            ctx.sample({'flavour': flav, 'route': [n.uid for n in path][:30], 'launched': res['n_launched'],
                        'survivors': res['n_expected'], 'channels_near_band_edges': res['near'],
                        'first_carriers': carriers[:3]})
    # uniform-grid request: launched set from the grid definition
    if pairs:
        a, z = pairs[0]
        req, spec = P._uniform_req(rng, equipment, a, z, f_lo=G.pick(rng, [191.0e12, 191.3e12, 186.3e12]),
                                   f_hi=G.pick(rng, [196.1e12, 196.3e12, 195.0e12]))
        path = W.route(network, req)
        if path:
            sp = spec['uniform']
            nch = int((sp['f_max'] - sp['f_min']) // sp['spacing'])
            carriers = [{'frequency': sp['f_min'] + sp['spacing'] * i, 'slot_width': sp['spacing'],
                         'baud_rate': sp['baud_rate'], 'roll_off': sp['roll_off'], 'tx_osnr': sp['tx_osnr'],
                         'tx_power_dbm': sp['tx_power_dbm'], 'delta_pdb': sp['delta_pdb'],
                         'label': f'{sp["baud_rate"] * 1e-9:.2f}G'} for i in range(1, nch + 1)]
            if carriers:
                check_path(ctx, scen, path, req, carriers, rng)
                ctx.cls('spectrum:uniform-grid')
                if ctx.violations:
                    ctx.dump.update({'equipment': scen.get('ej'), 'topology': scen.get('tj'), 'uniform': sp})
