"""C06 - a ROADM never amplifies and equalises every channel to its egress target.

Monitor: every Roadm crossing (recorded on propagated paths and driven directly with adversarial spectra) is
compared with an independent equaliser that resolves the target from the *configured* documents (egress degree
entry, else node, else library default; power / PSD x baud rate / PSW x slot width) and the path loss from the
impairment profiles.  Policy uniqueness is checked by loading ROADMs with 0..3 policies at library and topology level.
"""
import math
from copy import deepcopy

import numpy as np

from gnpy.core.elements import Roadm, Transceiver
from gnpy.core.exceptions import ConfigurationError, EquipmentConfigError, ParametersError
from gnpy.core.parameters import SimParams
from gnpy.tools.json_io import network_to_json

from vf import attach, workload as W
from vf.gen import common as G
from vf.props import _prop_common as P
from vf import stock
from vf.props.c03 import make_si

ID = 'C06'
RULE = ('generated designed meshes whose ROADMs carry node-level policies (power incl. 0 dBm / PSD / PSW) set in the '
        'library or in the topology, per-degree overrides of another policy type, impairment profiles with '
        'frequency-dependent maximum loss; crossings observed (i) while generated spectra are propagated and (ii) by '
        'driving single ROADMs (add / drop / express) with spectra whose channels lie above and below target with '
        'mixed baud rates, slot widths and offsets; "policy" cases load ROADMs with 0..3 policies. Non-trivial: a '
        'crossing with >=2 channels of which at least one is above and one below its target (direct) or >=2 channels '
        '(propagated). Distinct: hash of (configuration, degrees, spectrum).')
ASSUMPTIONS = ['target resolution taken from the configured documents, not from the designed element',
               'channel centre frequencies lie inside the frequency ranges of the impairment profiles',
               'tolerance 1e-9 dB on output power; P_out <= P_in + 1e-12 dB always']
REQUIRED_COUNTERS = {'stock_tests_run': 5, 'stock_roadm_crossings': 50, 'roadm_crossings': 100, 'direct_crossings': 40, 'below_target_channels': 20,
                     'above_target_channels': 20, 'per_degree_override_crossings': 10, 'policy_loads': 8}
CASE_TIMEOUT = {'quick': 400, 'thorough': 1800}

POLICIES = ['target_pch_out_db', 'target_psd_out_mWperGHz', 'target_out_mWperSlotWidth']


def plan(tier, seed):
    n = 1200 if tier == 'quick' else 16000
    kinds = ['net', 'net', 'direct', 'direct', 'policy', 'direct']
    cases = [{'idx': i, 'kind': kinds[i % len(kinds)]} for i in range(n)]
    # the repository's own tests as one more workload, with the monitors on (no ROADM amplifies)
    return cases + stock.stock_cases(tier, n, ID)


def synthetic_roadm_variety(rng):
    def rng_items(path_kind):
        edges = [184e12, 190.5e12, 193.0e12, 195.0e12, 200e12]
        out = []
        for lo, hi in zip(edges[:-1], edges[1:]):
            it = {'frequency-range': {'lower-frequency': lo, 'upper-frequency': hi}, 'roadm-pmd': G.pick(rng, [0, 1e-12]),
                  'roadm-cd': 0, 'roadm-pdl': G.pick(rng, [0, 0.5]), 'roadm-inband-crosstalk': 0,
                  'roadm-maxloss': G.pick(rng, [0, 3.0, 6.5, 11.5, 16.5])}
            if path_kind != 'express':
                it['roadm-osnr'] = G.pick(rng, [41, 38, 35])
            out.append(it)
        # The lookup of the code is "the first listed range that contains the frequency" (comment in
        # Roadm.get_impairment): ranges listed in any order, and a narrow exception sub-band (e.g. the roll-off at a
        # band edge) listed before the general range that also contains it.  Ranges share their edge frequencies, so
        # carriers sitting exactly on an edge belong to two ranges and get the first listed one.
        if rng.random() < 0.3:
            rng.shuffle(out)
        if rng.random() < 0.25:
            sub = dict(out[0], **{'frequency-range': {'lower-frequency': 193.4e12, 'upper-frequency': 194.1e12},
                                  'roadm-maxloss': G.pick(rng, [9.0, 14.0, 21.0])})
            out.insert(0, sub)
        return out
    profiles = [{'roadm-path-impairments-id': 0, 'roadm-express-path': rng_items('express')},
                {'roadm-path-impairments-id': 1, 'roadm-add-path': rng_items('add')},
                {'roadm-path-impairments-id': 2, 'roadm-drop-path': rng_items('drop')},
                {'roadm-path-impairments-id': 3, 'roadm-express-path': rng_items('express')},
                # second add and drop profiles (e.g. another add/drop block type): selectable per degree pair
                {'roadm-path-impairments-id': 4, 'roadm-add-path': rng_items('add')},
                {'roadm-path-impairments-id': 5, 'roadm-drop-path': rng_items('drop')}]
    if rng.random() < 0.5:
        rng.shuffle(profiles)        # ids identify the profiles, the order of the list carries no meaning
    return {'type_variety': 'vf_impair', POLICIES[0]: G.pick(rng, [-20, -18, 0, -25]), 'add_drop_osnr': 38, 'pmd': 0,
            'pdl': 0, 'restrictions': {'preamp_variety_list': [], 'booster_variety_list': []},
            'roadm-path-impairments': profiles}


def policy_value(rng, pol):
    if pol == POLICIES[0]:
        return G.pick(rng, [-20, -18.5, -23, 0, -15, -20.0])
    if pol == POLICIES[1]:
        return G.pick(rng, [3.125e-4, 2e-4, 5e-4, 1e-3])
    return G.pick(rng, [2e-4, 1.2e-4, 3.3e-4])


def build(rng):
    ej = G.eqpt_json()
    G.vary_span_si(rng, ej, allow_policy=True)
    ej['Roadm'].append(synthetic_roadm_variety(rng))

    def rp(r, s):
        p = {}
        if r.random() < 0.5:
            pol = G.pick(r, POLICIES)
            p[pol] = policy_value(r, pol)
        return p
    variety = G.pick(rng, [None, None, 'vf_impair', 'vf_impair', 'detailed_impairments', 'roadm_type_1'])
    tj, tdesc = G.gen_topology(rng, max_sites=4, max_spans=2, roadm_params=rp, per_degree=True,
                               roadm_variety=variety, max_km=100)
    if variety == 'vf_impair':
        # per-degree impairment profile on some express paths
        cx = [(c['from_node'], c['to_node']) for c in tj['connections']]
        typ = {e['uid']: e['type'] for e in tj['elements']}
        for e in tj['elements']:
            if e['type'] == 'Roadm' and rng.random() < 0.5:
                ins = [G.ingress_degree_uid(e['uid'], f, typ) for f, t in cx if t == e['uid'] and not f.startswith('trx')]
                outs = [G.egress_degree_uid(e['uid'], t, typ) for f, t in cx if f == e['uid'] and not t.startswith('trx')]
                if ins and outs:
                    e['params']['per_degree_impairments'] = [{'from_degree': G.pick(rng, ins),
                                                              'to_degree': G.pick(rng, outs),
                                                              'impairment_id': G.pick(rng, [3, 0, 0])}]
                    trx = [f for f, t in cx if t == e['uid'] and f.startswith('trx')]
                    if trx and rng.random() < 0.6:
                        # the non-default add / drop profile on one (transceiver, line degree) pair, either direction
                        if rng.random() < 0.5:
                            e['params']['per_degree_impairments'].append(
                                {'from_degree': G.pick(rng, ins), 'to_degree': trx[0], 'impairment_id': G.pick(rng, [5, 5, 2])})
                        else:
                            e['params']['per_degree_impairments'].append(
                                {'from_degree': trx[0], 'to_degree': G.pick(rng, outs), 'impairment_id': G.pick(rng, [4, 4, 1])})
    equipment = G.make_equipment(ej)
    network = G.make_network(tj, equipment)
    SimParams.set_params({})
    G.design(equipment, network)
    return ej, tj, equipment, network


# ------------------------------------------------------------------------------------------ independent equaliser

def db(x):
    return 10 * math.log10(x)


class Config:
    def __init__(self, ej, tj):
        self.lib = {r.get('type_variety', 'default'): r for r in ej['Roadm']}
        self.el = {e['uid']: e for e in tj['elements']}
        self.types = {e['uid']: e['type'] for e in tj['elements']}

    def target_dbm(self, roadm_uid, degree, baud, slot):
        e = self.el[roadm_uid]
        p = e.get('params', {})
        if degree in p.get('per_degree_pch_out_db', {}):
            return p['per_degree_pch_out_db'][degree], 'degree:power'
        if degree in p.get('per_degree_psd_out_mWperGHz', {}):
            return db(p['per_degree_psd_out_mWperGHz'][degree] * baud * 1e-9), 'degree:psd'
        if degree in p.get('per_degree_psd_out_mWperSlotWidth', {}):
            return db(p['per_degree_psd_out_mWperSlotWidth'][degree] * slot * 1e-9), 'degree:psw'
        src = p if any(k in p for k in POLICIES) else self.lib[e.get('type_variety', 'default')]
        if src.get(POLICIES[0]) is not None:
            return src[POLICIES[0]], 'node:power'
        if src.get(POLICIES[1]) is not None:
            return db(src[POLICIES[1]] * baud * 1e-9), 'node:psd'
        return db(src[POLICIES[2]] * slot * 1e-9), 'node:psw'

    def maxloss(self, roadm_uid, from_uid, to_uid, network_types, freq):
        e = self.el[roadm_uid]
        lib = self.lib[e.get('type_variety', 'default')]
        profiles = lib.get('roadm-path-impairments', [])
        if not profiles:
            return 0.0
        if network_types.get(from_uid) == 'Transceiver':
            kind = 'roadm-add-path'
        elif network_types.get(to_uid) == 'Transceiver':
            kind = 'roadm-drop-path'
        else:
            kind = 'roadm-express-path'
        pid = None
        for it in e.get('params', {}).get('per_degree_impairments', []):
            if it['from_degree'] == from_uid and it['to_degree'] == to_uid:
                pid = it['impairment_id']
        prof = None
        if pid is not None:
            prof = next(p for p in profiles if p['roadm-path-impairments-id'] == pid)
        else:
            prof = next((p for p in profiles if kind in p), None)
        if prof is None:
            return 0.0
        key = next(k for k in prof if k.startswith('roadm-') and k.endswith('-path'))
        for item in prof[key]:
            lo, hi = item['frequency-range']['lower-frequency'], item['frequency-range']['upper-frequency']
            if lo <= freq <= hi:
                return item.get('roadm-maxloss', 0)
        raise LookupError('frequency outside the impairment profile')


def check_crossing(ctx, cfg, ntypes, e, direct=False):
    b, a = e['before'], e['after']
    if a is None:
        return
    uid = e['uid']
    to_uid, from_uid = e['args']['degree'], e['args']['from_degree']
    ctx.count('roadm_crossings')
    if direct:
        ctx.count('direct_crossings')
    if a.n != b.n or not np.array_equal(a.frequency, b.frequency):
        ctx.violation('roadm-channel-set', f'{uid}: channel set changed across the ROADM')
        return
    pin = 10 * np.log10(b.pch * 1e3)
    pout = 10 * np.log10(a.pch * 1e3)
    if np.any(pout > pin + 1e-12):
        k = int(np.argmax(pout - pin))
        ctx.violation('roadm-amplifies', f'{uid} ({from_uid} -> {to_uid}): channel {b.frequency[k]:.5e} leaves with '
                      f'{pout[k]:.6f} dBm but entered with {pin[k]:.6f} dBm', {'pin': pin[:8], 'pout': pout[:8]})
        return
    exp = np.zeros(a.n)
    kinds = set()
    try:
        for i in range(a.n):
            t, kind = cfg.target_dbm(uid, to_uid, b.baud_rate[i], b.slot_width[i])
            ml = cfg.maxloss(uid, from_uid, to_uid, ntypes, b.frequency[i])
            tgt = t + b.delta_pdb[i]
            exp[i] = min(tgt, pin[i] - ml)
            kinds.add(kind)
            if pin[i] - ml < tgt:
                ctx.count('below_target_channels')
            else:
                ctx.count('above_target_channels')
    except LookupError:
        ctx.skip('channel-outside-impairment-profile')
        return
    if any(k.startswith('degree') for k in kinds):
        ctx.count('per_degree_override_crossings')
    ctx.cls(*(f'target:{k}' for k in kinds),
            'path:add' if ntypes.get(from_uid) == 'Transceiver' else
            ('path:drop' if ntypes.get(to_uid) == 'Transceiver' else 'path:express'))
    dev = np.abs(pout - exp)
    ctx.maxstat('roadm_output_dev_db', dev.max())
    if dev.max() > 1e-9:
        k = int(np.argmax(dev))
        t, kind = cfg.target_dbm(uid, to_uid, b.baud_rate[k], b.slot_width[k])
        ctx.violation('roadm-equalisation', f'{uid} ({from_uid} -> {to_uid}): channel {b.frequency[k]:.5e} (baud '
                      f'{b.baud_rate[k]:.3e}, slot {b.slot_width[k]:.3e}, offset {b.delta_pdb[k]}) leaves with '
                      f'{pout[k]:.6f} dBm; min(target {t:.6f} [{kind}] + offset, input {pin[k]:.6f} - path loss) = '
                      f'{exp[k]:.6f} dBm', {'pin': pin[:8], 'pout': pout[:8], 'expected': exp[:8]})
    return kinds


def network_types(network):
    return {n.uid: type(n).__name__ for n in network.nodes()}


def run_net(case, ctx):
    rng = ctx.rng
    ej, tj, equipment, network = build(rng)
    cfg = Config(ej, tj)
    nt = network_types(network)
    trx = W.trx_uids(network)
    pairs = [(a, z) for a in trx for z in trx if a != z]
    rng.shuffle(pairs)
    for a, z in pairs[:4]:
        if rng.random() < 0.5:
            req, spec = P._uniform_req(rng, equipment, a, z)
        else:
            req, spec, _ = P._carrier_req(rng, equipment, a, z, n_min=2)
        path = W.route(network, req)
        if not path:
            continue
        try:
            p, si, events, _ = W.propagate_copy(path, req, equipment)
        except W.NoChannelInBand:
            continue
        for e in events:
            if e['type'] == 'Roadm':
                check_crossing(ctx, cfg, nt, e)
        if si.number_of_channels >= 2:
            ctx.nontrivial(('net', P.digest(tj), a, z, P.digest(spec)))
        if not ctx.samples:
            ctx.sample({'kind': 'net', 'route': [n.uid for n in path][:30], 'spectrum': spec})
        if ctx.violations:
            ctx.dump.update({'equipment': ej, 'topology': tj})
            return


def run_direct(case, ctx):
    rng = ctx.rng
    ej, tj, equipment, network = build(rng)
    cfg = Config(ej, tj)
    nt = network_types(network)
    roadms = sorted((n for n in network.nodes() if isinstance(n, Roadm)), key=lambda n: n.uid)
    attach.install()
    for _ in range(6):
        r = deepcopy(G.pick(rng, roadms))
        rp = G.pick(rng, r.roadm_paths)
        # adversarial spectrum: powers around the target of each channel
        carriers = G.gen_carriers(rng, n_max=24, n_min=2, f_lo=191.4e12, f_hi=196.0e12)
        if len(carriers) < 2:
            continue
        above = below = 0
        for c in carriers:
            t, _ = cfg.target_dbm(r.uid, rp.to_degree, c['baud_rate'], c['slot_width'])
            try:
                ml = cfg.maxloss(r.uid, rp.from_degree, rp.to_degree, nt, c['frequency'])
            except LookupError:
                ml = 0
            c['tx_power_dbm'] = t + c['delta_pdb'] + ml + G.pick(rng, [-8, -3, -0.5, -1e-6, 0, 1e-6, 0.5, 4, 12])
        si = make_si(carriers)
        si.delta_pdb_per_channel = np.array([c['delta_pdb'] for c in sorted(carriers, key=lambda c: c['frequency'])])
        attach.reset()
        r(si, degree=rp.to_degree, from_degree=rp.from_degree)
        e = attach.EVENTS[0]
        check_crossing(ctx, cfg, nt, e, direct=True)
        pin = 10 * np.log10(e['before'].pch * 1e3)
        pout = 10 * np.log10(e['after'].pch * 1e3)
        if np.any(pin - pout > 1e-6) and np.any(pin - pout < 20):
            ctx.nontrivial(('direct', P.digest(tj), r.uid, rp.from_degree, rp.to_degree,
                            [(c['frequency'], round(c['tx_power_dbm'], 6)) for c in carriers]))
        if not ctx.samples:
            ctx.sample({'kind': 'direct', 'roadm': r.uid, 'from': rp.from_degree, 'to': rp.to_degree,
                        'path_type': rp.path_type, 'carriers': carriers[:4], 'pin': pin[:4], 'pout': pout[:4]})
        if len(carriers) >= 3 and rng.random() < 0.6 and not ctx.violations:
            # history: the SAME ROADM object is crossed again, same degrees, by a spectrum with the same number of
            # channels and the same first and last carrier whose inner carriers sit elsewhere (mirrored about the
            # centre), i.e. in other frequency ranges of the impairment profile
            cs = sorted(carriers, key=lambda c: c['frequency'])
            f0, f1 = cs[0]['frequency'], cs[-1]['frequency']
            inner = [dict(c, frequency=f0 + f1 - c['frequency']) for c in cs[1:-1]]
            cs2 = sorted([cs[0]] + inner + [cs[-1]], key=lambda c: c['frequency'])
            if all(b['frequency'] - a['frequency'] >= (a['slot_width'] + b['slot_width']) / 2 for a, b in zip(cs2[:-1], cs2[1:])):
                for c in cs2:
                    t, _ = cfg.target_dbm(r.uid, rp.to_degree, c['baud_rate'], c['slot_width'])
                    try:
                        ml = cfg.maxloss(r.uid, rp.from_degree, rp.to_degree, nt, c['frequency'])
                    except LookupError:
                        ml = 0
                    c['tx_power_dbm'] = t + c['delta_pdb'] + ml + G.pick(rng, [-8, -3, -0.5, 0, 0.5, 4])
                si2 = make_si(cs2)
                si2.delta_pdb_per_channel = np.array([c['delta_pdb'] for c in cs2])
                attach.reset()
                r(si2, degree=rp.to_degree, from_degree=rp.from_degree)
                ctx.count('recrossings_of_one_roadm_object')
                check_crossing(ctx, cfg, nt, attach.EVENTS[0], direct=True)
        if ctx.violations:
            ctx.dump.update({'equipment': ej, 'topology': tj})
            return


def run_policy(case, ctx):
    """Exactly one equalisation policy is in force: 0 / 2 / 3 policies are rejected, 1 in the topology overrides
    a different library default, and the exported element exposes exactly one."""
    rng = ctx.rng
    for _ in range(6):
        ej = G.eqpt_json()
        lib_n = G.pick(rng, [0, 1, 1, 1, 2, 3])
        top_n = G.pick(rng, [0, 0, 1, 1, 2, 3])
        r = ej['Roadm'][0]
        for k in POLICIES:
            r.pop(k, None)
        lib_pols = rng.sample(POLICIES, lib_n)
        for k in lib_pols:
            r[k] = policy_value(rng, k)
        top_pols = rng.sample(POLICIES, top_n)
        tj, _ = G.gen_topology(rng, n_sites=2, max_spans=1, user_amps=False)
        for e in tj['elements']:
            if e['type'] == 'Roadm':
                for k in top_pols:
                    e['params'][k] = policy_value(rng, k)
        ctx.count('policy_loads')
        ctx.cls(f'policy:lib{lib_n}/topo{top_n}')
        ctx.nontrivial(('policy', lib_pols, top_pols, P.digest(tj)))
        stage = 'library'
        try:
            equipment = G.make_equipment(ej)
            stage = 'topology'
            network = G.make_network(tj, equipment)
            stage = 'design'
            SimParams.set_params({})
            G.design(equipment, network)
        except (ConfigurationError, EquipmentConfigError, ParametersError) as err:
            if lib_n == 1 and top_n <= 1:
                ctx.violation('single-policy-rejected', f'one policy in the library and {top_n} in the topology were '
                              f'rejected at {stage}: {err}', {'lib': lib_pols, 'topo': top_pols})
            continue
        if lib_n != 1 or top_n > 1:
            ctx.violation('policy-uniqueness', f'{lib_n} policies in the library and {top_n} in the topology were '
                          f'accepted', {'lib': lib_pols, 'topo': top_pols})
            continue
        exp_pol = top_pols[0] if top_n == 1 else lib_pols[0]
        for n in network.nodes():
            if isinstance(n, Roadm):
                have = [k for k, v in ((POLICIES[0], n.target_pch_out_dbm), (POLICIES[1], n.target_psd_out_mWperGHz),
                                       (POLICIES[2], n.target_out_mWperSlotWidth)) if v is not None]
                exported = [k for k in POLICIES if k in n.to_json['params']]
                if have != [exp_pol] or exported != [exp_pol]:
                    ctx.violation('policy-in-force', f'{n.uid}: policies in force {have}, exported {exported}, '
                                  f'expected exactly {exp_pol}', {'lib': lib_pols, 'topo': top_pols})
        if not ctx.samples:
            ctx.sample({'kind': 'policy', 'library': lib_pols, 'topology': top_pols, 'in_force': exp_pol})


def run_case(case, ctx):
    if case['kind'] == 'stock':
        stock.run_stock_case(case, ctx, ID)
    elif case['kind'] == 'net':
        run_net(case, ctx)
    elif case['kind'] == 'direct':
        run_direct(case, ctx)
    else:
        run_policy(case, ctx)
