"""C15 - every designed network yields a consistent OMS partition and spectrum map.

Monitors: icontract class invariant on the real Bitmap (index contiguous, unique, as long as the map) evaluated
after construction and after every insert; structural checker on the OMS list returned by build_oms_list
(partition of the line elements, ROADM end points, reverse pairing, common slot range, usable = inside the common
band of the OMS amplifiers); alignment checker on random map sets of different extents.
"""
import json
from copy import deepcopy

import icontract

from gnpy.core.elements import Roadm, Transceiver, Edfa, Multiband_amplifier, Fiber
from gnpy.core.exceptions import SpectrumError, NetworkTopologyError, ConfigurationError
from gnpy.core.parameters import SimParams
from gnpy.topology import spectrum_assignment as SA
from gnpy.topology.spectrum_assignment import OMS, BitmapValue, build_oms_list, align_grids, frequency_to_n, \
    nvalue_to_frequency

from vf.gen import common as G
from vf.props import _prop_common as P
from vf import stock
from vf.props.c07 import build_narrow

ID = 'C15'
RULE = ('designed networks whose OMS differ in amplifier bands: shipped multiband example, generated C+L networks, C+L '
        'networks with single-band links, single-band meshes with narrower-band amplifier models on some links; plus '
        'random sets of 2..8 spectrum maps of different extents with occupied slots passed to grid alignment. '
        'Non-trivial: a network whose OMS do not all have the same common band, or a map set with >=2 different '
        'extents. Distinct: hash of (topology, library) / of the map set.'
        ' Also lines that end on a transceiver: point-to-point links without ROADMs (some without any amplifier) and a transceiver attached to a ROADM through a line.')
ASSUMPTIONS = ['the slots within one grid step (6.25 GHz) of a band edge are not judged',
               'amplifier bands are read from the loaded library']
REQUIRED_COUNTERS = {'oms_lists_rebuilt_after_extension': 10, 'networks_mixing_band_plans': 10, 'stock_tests_run': 5, 'stock_bitmap_invariant_evaluations': 500, 'oms_lists_built': 20, 'oms_checked': 100, 'bitmap_invariant_evaluations': 200,
                     'band_marking_checks': 100, 'alignment_sets': 20, 'networks_with_different_bands': 8}
CASE_TIMEOUT = {'quick': 400, 'thorough': 1800}
FREE, OCC, UNU = BitmapValue.FREE, BitmapValue.OCCUPIED, BitmapValue.UNUSABLE
GRID = 6.25e9
_INV = {'n': 0, 'fail': None}


class BitmapInvariantBroken(Exception):
    pass


def bitmap_consistent(self):
    _INV['n'] += 1
    idx = self.freq_index
    ok = len(self.bitmap) == len(idx) and all(b - a == 1 for a, b in zip(idx[:-1], idx[1:])) \
        and len(idx) > 0 and idx[0] == self.n_min and idx[-1] == self.n_max
    if not ok and _INV['fail'] is None:
        dup = sorted({x for x in idx if idx.count(x) > 1})[:3]
        _INV['fail'] = {'len_bitmap': len(self.bitmap), 'len_index': len(idx), 'n_min': self.n_min, 'n_max': self.n_max,
                        'first': idx[:3], 'last': idx[-3:], 'duplicates': dup}
    return True     # record and go on: the checker reports, the run is not aborted


class OmsWalkDoesNotEnd(Exception):
    pass


_WALK = {'limit': None}


def install():
    if getattr(SA.Bitmap, '_vf_inv', False):
        return
    # bounded progress of the OMS walk: an OMS cannot hold more elements than the network has nodes
    orig_add = SA.OMS.add_element

    def add_element(self, elem):
        orig_add(self, elem)
        if _WALK['limit'] is not None and len(self.el_list) > _WALK['limit']:
            raise OmsWalkDoesNotEnd(f'OMS {self.oms_id} holds {len(self.el_list)} elements in a network of '
                                    f'{_WALK["limit"] - 2} nodes: the walk {self.el_id_list[:8]}... does not end')
    SA.OMS.add_element = add_element
    SA.Bitmap = icontract.invariant(bitmap_consistent, error=BitmapInvariantBroken)(SA.Bitmap)
    SA.Bitmap._vf_inv = True


def plan(tier, seed):
    n = 720 if tier == 'quick' else 10000
    kinds = ['multiband_shipped', 'multiband_gen', 'mixed', 'narrow', 'align', 'align', 'multiband_gen', 'narrow',
             'p2p', 'chassis', 'offgrid', 'align', 'mixed_wide', 'suppliers']
    cases = [{'idx': i, 'kind': kinds[i % len(kinds)]} for i in range(n)]
    # the repository's own tests as one more workload, with the Bitmap invariant on
    return cases + stock.stock_cases(tier, n, ID)


# ------------------------------------------------------------------------------------------------------------

def build_trx_lines(rng, kind):
    """Lines that end on a transceiver instead of a ROADM: a point-to-point link without ROADMs ('p2p'), or a mesh in
    which one more transceiver is attached to a ROADM through a fibre line ('chassis')."""
    ej = G.eqpt_json()
    equipment = G.make_equipment(ej)
    if kind == 'p2p':
        # a quarter of the lines are single
        # spans without any amplifier: the spectrum map then has to come from the SI range
        bare = rng.random() < 0.25
        r = rng.random()
        if r < 0.15:
            # the shipped point-to-point example: one direction only, its far transceiver has no successor
            tj = G.example_json('edfa_example_network.json')
        else:
            # (a quarter of the generated lines are one-directional as well)
            tj = G.gen_p2p(rng, both=r > 0.4, max_spans=1 if bare else 4, user_amps=not bare)
    else:
        tj, _ = G.gen_topology(rng, max_sites=4, max_spans=2, max_km=110)
        a = rng.choice([e['uid'] for e in tj['elements'] if e['type'] == 'Roadm'])
        tj['elements'].append({'uid': 'trx X', 'type': 'Transceiver', 'metadata': G._loc(9, 9)})
        for src, dst in (('trx X', a), (a, 'trx X')):
            chain = [G.gen_fiber(rng, f'fiber ({src} → {dst})-{j}', max_km=100) for j in range(rng.randint(1, 2))]
            tj['elements'] += chain
            u = [src] + [c['uid'] for c in chain] + [dst]
            tj['connections'] += [{'from_node': x, 'to_node': y} for x, y in zip(u[:-1], u[1:])]
    network = G.make_network(tj, equipment)
    SimParams.set_params({})
    G.design(equipment, network)
    return {'ej': ej, 'tj': tj, 'equipment': equipment, 'network': network}


def build_mixed(rng, wide=False):
    """C+L network in which some links are single band (user-placed single-band amplifiers).  With `wide` the single-band
    links use one wide-band model whose single band spans both the L and the C band of the multiband amplifiers."""
    ej = G.eqpt_json('eqpt_config_multiband.json')
    if wide:
        ej['Edfa'].append({'type_variety': 'vf_wide_band', 'type_def': 'variable_gain', 'f_min': 186.4e12, 'f_max': 196.2e12,
                           'gain_flatmax': 26, 'gain_min': 15, 'p_max': 23, 'nf_min': 6, 'nf_max': 10,
                           'out_voa_auto': False, 'allowed_for_design': False})
    equipment = G.make_equipment(ej)

    def rp(r, s):
        return {'design_bands': deepcopy(P.MB_BANDS)}
    tj, tdesc = G.gen_topology(rng, max_sites=4, max_spans=2, user_amps=False, fused=False, roadm_params=rp, max_km=110)
    single = set()
    for a, b in tdesc['links']:
        if rng.random() < 0.4:
            single.add((a, b))
    typ = {e['uid']: e['type'] for e in tj['elements']}

    def link_of(u):
        # 'fiber (A → B)-k'
        s = u[u.index('(') + 1:u.index(')')]
        x, y = s.split(' → ')
        return tuple(sorted((x, y)))

    def is_multi(a, b):
        if typ[a] != 'Fiber' and typ[b] != 'Fiber':
            return False
        f = a if typ[a] == 'Fiber' else b
        return link_of(f) not in single
    P.multibandify(tj, rng, only=is_multi)
    # single-band links: user-placed single band amplifiers with a stated model at every junction
    els, cx = tj['elements'], tj['connections']
    typ = {e['uid']: e['type'] for e in els}
    for c in list(cx):
        a, b = c['from_node'], c['to_node']
        ta, tb = typ[a], typ[b]
        if (ta == 'Roadm' and tb == 'Fiber') or (ta == 'Fiber' and tb == 'Fiber') or (ta == 'Fiber' and tb == 'Roadm'):
            uid = f'sbamp {a} to {b}'
            els.append({'uid': uid, 'type': 'Edfa', 'type_variety': 'vf_wide_band' if wide else
                        G.pick(rng, ['std_low_gain', 'std_medium_gain_C', 'std_low_gain_reduced_band']),
                        'operational': {'gain_target': None, 'delta_p': None, 'tilt_target': 0, 'out_voa': None},
                        'metadata': G._loc(0, 0)})
            typ[uid] = 'Edfa'
            cx.remove(c)
            cx.append({'from_node': a, 'to_node': uid})
            cx.append({'from_node': uid, 'to_node': b})
    network = G.make_network(tj, equipment)
    SimParams.set_params({})
    G.design(equipment, network)
    return {'ej': ej, 'tj': tj, 'equipment': equipment, 'network': network}


def build_suppliers(rng):
    """C+L network whose multiband amplifiers come from two suppliers with different band plans: the L-band model of
    the second one reaches up into the bottom of the first one's C band, so that an OMS mixing them has a third, narrow
    common band between the two wide ones (narrower than a channel spacing in some draws)."""
    ej = G.eqpt_json('eqpt_config_multiband.json')
    low = next(e for e in ej['Edfa'] if e['type_variety'] == 'std_low_gain')
    c_lo = G.pick(rng, [191.4e12, 191.35e12, 191.3e12])
    # (the two bands of one amplifier stay apart: bands that touch or overlap inside one amplifier are not a band plan)
    l_hi = G.pick(rng, [x for x in (191.28e12, 191.30e12, 191.2625e12) if x < c_lo])
    ej['Edfa'].append({**low, 'type_variety': 'vf_xl_C', 'f_min': c_lo, 'f_max': 196.15e12})
    ej['Edfa'].append({**low, 'type_variety': 'vf_xl_L', 'f_min': 186.55e12, 'f_max': l_hi})
    ej['Edfa'].append({'type_variety': 'vf_xl_multiband', 'type_def': 'multi_band', 'amplifiers': ['vf_xl_C', 'vf_xl_L'],
                       'allowed_for_design': False})
    equipment = G.make_equipment(ej)

    def rp(r, s):
        return {'design_bands': deepcopy(P.MB_BANDS)}
    tj, tdesc = G.gen_topology(rng, max_sites=3, max_spans=3, user_amps=False, fused=False, roadm_params=rp, max_km=110)
    P.multibandify(tj, rng, varieties=['std_low_gain_multiband_bis', 'vf_xl_multiband', 'vf_xl_multiband'])
    network = G.make_network(tj, equipment)
    SimParams.set_params({})
    G.design(equipment, network)
    return {'ej': ej, 'tj': tj, 'equipment': equipment, 'network': network}


def build_offgrid(rng):
    """Single-band mesh in which user-placed amplifiers are models whose band edges are not multiples of 6.25 GHz from
    193.1 THz, with edges on either side of that anchor frequency."""
    ej = G.eqpt_json()
    names = []
    # all models of one network share some band (amplifiers without any common band on one line are not a line system)
    low = rng.random() < 0.5
    for k in range(rng.randint(2, 4)):
        if low:
            # (191.2031 / 191.1519 THz lie below every stock model: the slot range of the whole network then starts
            # off the grid)
            lo = G.pick(rng, [191.2775e12, 191.31e12, 191.3031e12, 191.275e12, 191.2031e12, 191.1519e12])
            hi = G.pick(rng, [196.0535e12, 194.0519e12, 193.0519e12, 192.9981e12, 196.125e12])
        else:
            lo = G.pick(rng, [192.4019e12, 193.1031e12, 193.3044e12, 191.275e12])
            hi = G.pick(rng, [196.0535e12, 195.9977e12, 196.1219e12, 196.125e12, 196.1781e12])
        names.append(f'vf_offgrid_{k}')
        ej['Edfa'].append({'type_variety': names[-1], 'type_def': 'variable_gain', 'f_min': lo, 'f_max': hi,
                           'gain_flatmax': 26, 'gain_min': 15, 'p_max': 23, 'nf_min': 6, 'nf_max': 10,
                           'out_voa_auto': False, 'allowed_for_design': False})
    equipment = G.make_equipment(ej)
    tj, tdesc = G.gen_topology(rng, max_sites=4, max_spans=3, fused=True,
                               amp_varieties=names + ['std_medium_gain', 'std_low_gain'])
    network = G.make_network(tj, equipment)
    SimParams.set_params({})
    G.design(equipment, network)
    return {'ej': ej, 'tj': tj, 'equipment': equipment, 'network': network}


def amp_bands(el):
    if isinstance(el, Multiband_amplifier):
        return [(a.params.f_min, a.params.f_max) for a in el.amplifiers.values()]
    return [(el.params.f_min, el.params.f_max)]


def common_bands(els, si):
    """Intersection of the band sets of the amplifiers of an OMS (list of (lo, hi))."""
    amps = [e for e in els if isinstance(e, (Edfa, Multiband_amplifier))]
    if not amps:
        return [(si.f_min, si.f_max)]
    cur = sorted(amp_bands(amps[0]))
    for a in amps[1:]:
        new = []
        for lo, hi in cur:
            for l2, h2 in amp_bands(a):
                l, h = max(lo, l2), min(hi, h2)
                if l < h:
                    new.append((l, h))
        cur = sorted(new)
    return cur


def check_oms_list(ctx, network, equipment, oms_list, tag):
    ctx.count('oms_lists_built')
    line = [n for n in network.nodes() if not isinstance(n, (Roadm, Transceiver))]
    member = {}
    for o in oms_list:
        ctx.count('oms_checked')
        # an OMS runs from one ROADM to the next; a line that is directly connected to a transceiver (no ROADM in
        # between) starts / ends on that transceiver
        if not isinstance(o.el_list[0], (Roadm, Transceiver)) or not isinstance(o.el_list[-1], (Roadm, Transceiver)) \
                or len(o.el_list) < 3:
            ctx.violation('oms-endpoints', f'{tag}: OMS {o.oms_id} does not run from a ROADM (or transceiver) to the '
                          f'next ({o.el_id_list[0]} .. {o.el_id_list[-1]})')
        for a, b in zip(o.el_list[:-1], o.el_list[1:]):
            if b not in set(network.successors(a)):
                ctx.violation('oms-not-a-chain', f'{tag}: OMS {o.oms_id}: {a.uid} -> {b.uid} is not a link')
        for e in o.el_list[1:-1]:
            if isinstance(e, (Roadm, Transceiver)):
                ctx.violation('oms-crosses-roadm', f'{tag}: OMS {o.oms_id} contains {e.uid} in the middle')
            member.setdefault(e.uid, []).append(o.oms_id)
            if getattr(e, 'oms', None) is not o or getattr(e, 'oms_id', None) != o.oms_id:
                ctx.violation('element-oms-link', f'{tag}: {e.uid} does not point back to OMS {o.oms_id}')
    for n in line:
        # transceiver stubs (trx <-> roadm) carry no line element
        if len(member.get(n.uid, [])) != 1:
            ctx.violation('oms-partition', f'{tag}: line element {n.uid} belongs to {len(member.get(n.uid, []))} OMS')
    # reverse pairing
    for o in oms_list:
        r = getattr(o, 'reversed_oms', None)
        has_opposite = any(x.el_id_list[0] == o.el_id_list[-1] and x.el_id_list[-1] == o.el_id_list[0] for x in oms_list)
        if r is None and not has_opposite:
            # a one-directional line: there is nothing to pair
            ctx.count('oms_without_opposite_direction')
            continue
        if r is None:
            ctx.violation('reverse-missing', f'{tag}: OMS {o.oms_id} ({o.el_id_list[0]} -> {o.el_id_list[-1]}) has no '
                          'opposite direction although the topology is bidirectional')
            continue
        if r.reversed_oms is not o or r.el_id_list[0] != o.el_id_list[-1] or r.el_id_list[-1] != o.el_id_list[0]:
            ctx.violation('reverse-pairing', f'{tag}: OMS {o.oms_id} <-> {r.oms_id} is not an involution with swapped '
                          'end points')
    # same slot range everywhere
    ref = oms_list[0].spectrum_bitmap
    for o in oms_list:
        b = o.spectrum_bitmap
        if (b.n_min, b.n_max, len(b.bitmap), b.freq_index) != (ref.n_min, ref.n_max, len(ref.bitmap), ref.freq_index):
            ctx.violation('maps-differ-in-range', f'{tag}: OMS {o.oms_id} covers n {b.n_min}..{b.n_max} '
                          f'({len(b.bitmap)} slots), OMS {oms_list[0].oms_id} {ref.n_min}..{ref.n_max} ({len(ref.bitmap)})')
            return
    # usable <=> inside the common band of the OMS amplifiers
    si = equipment['SI']['default']
    distinct = set()
    for o in oms_list:
        bands = common_bands(o.el_list, si)
        distinct.add(tuple(bands))
        b = o.spectrum_bitmap
        ctx.count('band_marking_checks')
        for n, v in zip(b.freq_index, b.bitmap):
            f = nvalue_to_frequency(n)
            # slot n stands for the centre frequency f_n (the convention of the map: "f_min is the min central
            # frequency"): usable exactly when f_n lies in a common band, edges included (1 kHz for float noise)
            inside = any(f >= lo - 1e3 and f <= hi + 1e3 for lo, hi in bands)
            outside = all(f < lo - 1e3 or f > hi + 1e3 for lo, hi in bands)
            if inside and v != FREE:
                ctx.violation('band-marking', f'{tag}: OMS {o.oms_id} ({o.el_id_list[1]}..): slot n={n} '
                              f'({f * 1e-12:.5f} THz) lies inside the common band {bands} but is marked {v}')
                break
            if outside and v == FREE:
                ctx.violation('band-marking', f'{tag}: OMS {o.oms_id}: slot n={n} ({f * 1e-12:.5f} THz) lies outside '
                              f'every common band {bands} but is marked usable')
                break
    return len(distinct)


def run_network(case, ctx):
    rng = ctx.rng
    kind = case['kind']
    if kind == 'multiband_shipped':
        ej = G.eqpt_json('eqpt_config_multiband.json')
        equipment = G.make_equipment(ej)
        tj = G.example_json('multiband_example_network.json')
        network = G.make_network(tj, equipment)
        SimParams.set_params({})
        G.design(equipment, network)
        scen = {'ej': ej, 'tj': tj, 'equipment': equipment, 'network': network}
    elif kind == 'multiband_gen':
        scen = P.build_multiband(rng)
    elif kind in ('mixed', 'mixed_wide'):
        try:
            scen = build_mixed(rng, wide=kind == 'mixed_wide')
        except (NetworkTopologyError, ConfigurationError) as e:
            ctx.reject(f'{type(e).__name__}: {str(e)[:120]}')
            return
    elif kind == 'suppliers':
        try:
            scen = build_suppliers(rng)
        except (NetworkTopologyError, ConfigurationError) as e:
            ctx.reject(f'{type(e).__name__}: {str(e)[:120]}')
            return
        ctx.count('networks_mixing_band_plans')
    elif kind in ('p2p', 'chassis'):
        scen = build_trx_lines(rng, kind)
        ctx.count('networks_with_lines_ending_on_a_transceiver')
    elif kind == 'offgrid':
        try:
            scen = build_offgrid(rng)
        except (NetworkTopologyError, ConfigurationError) as e:
            ctx.reject(f'{type(e).__name__}: {str(e)[:120]}')
            return
    else:
        scen = build_narrow(rng)
    SimParams.set_params({})
    _INV['fail'] = None
    n0 = _INV['n']
    _WALK['limit'] = scen['network'].number_of_nodes() + 2
    try:
        oms_list = build_oms_list(scen['network'], scen['equipment'])
    except OmsWalkDoesNotEnd as e:
        ctx.violation('oms-walk-does-not-end', f'{kind}: {e}')
        ctx.dump.update({'topology': scen['tj']})
        return
    except SpectrumError as e:
        mech = 'oms-map-one-slot-short' if 'bitmap is not consistant' in str(e) else None
        ctx.violation('oms-list-not-built', f'{kind}: build_oms_list raised {e}', mechanism=mech)
        ctx.dump.update({'topology': scen['tj']})
        return
    ctx.count('bitmap_invariant_evaluations', _INV['n'] - n0)
    if _INV['fail']:
        f = _INV['fail']
        ctx.violation('bitmap-invariant', f'{kind}: spectrum map index broken during construction/alignment: {f}',
                      mechanism='insert-right-duplicates-index' if f['duplicates'] else None)
    nd = check_oms_list(ctx, scen['network'], scen['equipment'], oms_list, kind)
    if nd and nd >= 2:
        ctx.count('networks_with_different_bands')
        ctx.nontrivial((kind, P.digest(scen['tj'])))
    ctx.cls(f'net:{kind}', f'distinct_bands:{nd}')
    if kind in ('narrow', 'offgrid') and not ctx.violations and rng.random() < 0.5 and \
            any(e['type'] == 'Roadm' for e in scen['tj']['elements']):
        # history: the designed network object grows by one site (new links on an existing ROADM), is designed again and
        # the OMS list is built a second time on the same objects: whatever the first build left on the nodes must not
        # decide the second pairing
        from vf.props.c08 import extend_network
        tj2 = extend_network(rng, scen['tj'], scen['equipment'], scen['network'])
        try:
            G.design(scen['equipment'], scen['network'])
            _WALK['limit'] = scen['network'].number_of_nodes() + 2
            oms2 = build_oms_list(scen['network'], scen['equipment'])
        except (NetworkTopologyError, ConfigurationError, SpectrumError) as e:
            ctx.skip(f'second-build-after-extension:{type(e).__name__}')
            oms2 = None
        if oms2 is not None:
            ctx.count('oms_lists_rebuilt_after_extension')
            before = len(ctx.violations)
            check_oms_list(ctx, scen['network'], scen['equipment'], oms2, kind + '+extended')
            if len(ctx.violations) > before:
                ctx.dump.update({'topology_after_extension': tj2})
    if not ctx.samples:
        o = oms_list[0]
        ctx.sample({'kind': kind, 'oms': len(oms_list), 'n_min': o.spectrum_bitmap.n_min, 'n_max': o.spectrum_bitmap.n_max,
                    'first_oms': o.el_id_list[:6], 'usable_slots_first_oms': sum(1 for v in o.spectrum_bitmap.bitmap if v == FREE)})
    if ctx.violations:
        ctx.dump.update({'topology': scen['tj']})


def run_align(case, ctx):
    rng = ctx.rng
    for _ in range(4):
        k = rng.randint(2, 8)
        oms_list, before = [], []
        shape = G.pick(rng, ['any', 'any', 'same-width-shifted', 'some-identical', 'nested'])
        width = rng.randint(40, 160)
        first = None
        for i in range(k):
            f_min = 193.1e12 + rng.randint(-80, 10) * 12.5e9
            f_max = 193.1e12 + rng.randint(20, 120) * 12.5e9
            if shape == 'same-width-shifted':
                # windows of one width at different places (same number of slots, different extents)
                f_max = f_min + width * 12.5e9
            elif shape == 'some-identical' and first is not None and rng.random() < 0.6:
                f_min, f_max = first
            elif shape == 'nested' and first is not None:
                f_min = first[0] + rng.randint(0, 10) * 12.5e9
                f_max = max(first[1] - rng.randint(0, 10) * 12.5e9, f_min + 4 * 12.5e9)
            first = first or (f_min, f_max)
            o = OMS(oms_id=i, el_id_list=[], el_list=[])
            n_lo, n_hi = frequency_to_n(f_min), frequency_to_n(f_max)
            bm = [G.pick(rng, [FREE, FREE, FREE, OCC, UNU]) for _ in range(n_hi - n_lo + 1)]
            o.update_spectrum(f_min, f_max, existing_spectrum=list(bm))
            oms_list.append(o)
            before.append({n: v for n, v in zip(range(n_lo, n_hi + 1), bm)})
        _INV['fail'] = None
        n0 = _INV['n']
        align_grids(oms_list)
        ctx.count('alignment_sets')
        ctx.count('bitmap_invariant_evaluations', _INV['n'] - n0)
        extents = {(min(b), max(b)) for b in before}
        if _INV['fail']:
            f = _INV['fail']
            ctx.violation('bitmap-invariant', f'alignment of {k} maps: index broken: {f}',
                          mechanism='insert-right-duplicates-index' if f['duplicates'] and
                          f['len_bitmap'] == f['len_index'] else None)
        lo = min(min(b) for b in before)
        hi = max(max(b) for b in before)
        for o, b in zip(oms_list, before):
            sb = o.spectrum_bitmap
            idx = sb.freq_index
            if len(set(idx)) != len(idx) or idx != list(range(idx[0], idx[0] + len(idx))):
                if not _INV['fail']:
                    ctx.violation('alignment-index', f'map {o.oms_id}: slot indices not unique/contiguous after alignment')
                continue
            if (sb.n_min, sb.n_max) != (lo, hi) or len(sb.bitmap) != hi - lo + 1:
                ctx.violation('alignment-range', f'map {o.oms_id}: covers {sb.n_min}..{sb.n_max}, expected {lo}..{hi}')
                continue
            now = dict(zip(idx, sb.bitmap))
            for n, v in b.items():
                if now.get(n) != v:
                    ctx.violation('alignment-moved-occupancy', f'map {o.oms_id}: slot n={n} was {v}, is {now.get(n)} '
                                  'after alignment')
                    break
            pad_free = [n for n in idx if n not in b and now[n] == FREE]
            if pad_free:
                ctx.violation('alignment-padding-free', f'map {o.oms_id}: padded slots {pad_free[:4]} are free')
        if len(extents) >= 2:
            ctx.nontrivial(('align', sorted(extents), [sorted(b.items())[:5] for b in before]))
        ctx.cls('align', f'maps:{k}', f'align-shape:{shape}')
        if not ctx.samples:
            ctx.sample({'kind': 'align', 'extents': sorted(extents), 'aligned_to': [lo, hi]})


def run_case(case, ctx):
    if case['kind'] == 'stock':
        return stock.run_stock_case(case, ctx, ID)
    install()
    if case['kind'] == 'align':
        run_align(case, ctx)
    else:
        run_network(case, ctx)
