"""C16 - each request's result is independent of the other requests in the batch.

Monitor: history checker.  The same designed network object is used for a sequence of planning() runs with the
batch in different compositions and orders (each request alone, first, last, k random orders); the reported
route / mode / metrics / verdict of every request must be identical in every run, and a canonical digest of the
network settings must be unchanged after every run.  Element calls are recorded to count how many propagations
touched an object of the designed network itself.
"""
import json
from copy import deepcopy

import numpy as np

from gnpy.core.elements import Edfa, Multiband_amplifier, Roadm, Fiber, Transceiver, Fused
from gnpy.core.parameters import SimParams
from gnpy.core.exceptions import DisjunctionError
from gnpy.tools.json_io import network_to_json
from gnpy.tools.worker_utils import planning

from vf import attach
from vf.gen import common as G, services as S
from vf.props import _prop_common as P

ID = 'C16'
RULE = ('generated designed meshes (low p_max amplifier models in half of the cases so that dense or high-power combs '
        'saturate) x batches of 2..8 requests (fixed and automatic mode, sparse and dense combs, low and high power, '
        'bidirectional, infeasible thresholds, unsatisfiable STRICT routes) run alone / first / last / in random '
        'orders back to back on one network object. Each (request, run) pair is one observation. Non-trivial: a batch '
        'that contains at least one saturating or blocked request next to a served one. Distinct: hash of (topology, '
        'batch).'
        ' Also point-to-point lines without ROADMs.')
ASSUMPTIONS = ['batches carry no aggregatable duplicates (C19); batches with synchronisation vectors are compared over orders of '
               'the whole batch only (a disjoint partner legitimately changes the route: C12)', 'spectrum labels and spectrum-related blocking reasons are excluded as the statement says',
               'results compared exactly (same floating point values)']
REQUIRED_COUNTERS = {'batches_with_synchronisation_vectors': 5, 'sim_params_checks': 60, 'planning_runs': 60, 'request_results_compared': 300, 'network_digest_checks': 60,
                     'saturating_propagations': 10}
CASE_TIMEOUT = {'quick': 400, 'thorough': 800}
SPECTRUM_REASONS = ('NO_SPECTRUM', 'NOT_ENOUGH_RESERVED_SPECTRUM')


def plan(tier, seed):
    n = 84 if tier == 'quick' else 2000
    n = 112 if tier == 'quick' else 2600
    return [{'idx': i, 'kind': ['plain', 'sat', 'plain', 'sat', 'p2p', 'multiband', 'ggn', 'sync'][i % 8]}
            for i in range(n)]


def sim_json():
    d = SimParams._shared_dict
    return {k: (json.loads(json.dumps(vars(v), default=str)) if hasattr(v, '__dict__') else v) for k, v in d.items()}


def digest_network(network):
    """Canonical digest of every element's settings (exported form plus the run-time attributes design sets)."""
    out = {}
    for n in network.nodes():
        d = {'json': n.to_json}
        if isinstance(n, Edfa):
            d.update(eff=n.effective_gain, dp=n.delta_p, _dp=n._delta_p, voa=n.out_voa, in_voa=n.in_voa,
                     tilt=n.tilt_target, var=n.params.type_variety, tgt=n.target_pch_out_dbm)
        elif isinstance(n, Multiband_amplifier):
            d.update(amps={b: (a.effective_gain, a.delta_p, a.out_voa, a.tilt_target, a.params.type_variety)
                           for b, a in n.amplifiers.items()})
        elif isinstance(n, Roadm):
            d.update(pd=(n.per_degree_pch_out_dbm, n.per_degree_pch_psd, n.per_degree_pch_psw), ref_in=n.ref_pch_in_dbm,
                     paths=[(p.from_degree, p.to_degree, p.path_type, p.impairment_id) for p in n.roadm_paths])
        elif isinstance(n, Fiber):
            d.update(att_in=n.params.att_in, con=(n.params.con_in, n.params.con_out), ref=n.ref_pch_in_dbm,
                     length=n.params.length)
        out[n.uid] = d
    out['__edges__'] = sorted((a.uid, b.uid, round(w.get('weight', 0), 6)) for a, b, w in network.edges(data=True))
    return json.dumps(out, sort_keys=True, default=lambda o: o.tolist() if isinstance(o, np.ndarray) else repr(o))


def strip(result_json):
    """The part of a response that must not depend on the batch."""
    r = deepcopy(result_json)
    reason = None
    props = None
    if 'no-path' in r:
        reason = r['no-path']['no-path']
        props = r['no-path'].get('path-properties')
    else:
        props = r.get('path-properties')
    if reason in SPECTRUM_REASONS:
        reason = None          # spectrum outcome depends on what was assigned earlier
    route, trx = None, None
    metrics = None
    if props:
        route = [o['path-route-object']['num-unnum-hop']['node-id'] for o in props['path-route-objects']
                 if 'num-unnum-hop' in o['path-route-object']]
        trx = [o['path-route-object']['transponder'] for o in props['path-route-objects']
               if 'transponder' in o['path-route-object']][:1]
        metrics = {'fwd': props.get('path-metric'), 'rev': props.get('z-a-path-metric')}
    return {'reason': reason, 'route': route, 'trx': trx, 'metrics': metrics}


def build_multiband(rng):
    """C+L network (shipped example or generated): the line amplifiers are Multiband_amplifier elements that hold one
    amplifier object per band - state an element keeps in a sub-object must stay per request as well."""
    low = rng.random() < 0.6

    def hook(ej):
        if low:
            for e in ej['Edfa']:
                if e.get('type_def') != 'multi_band' and e.get('p_max', 0) > 18:
                    e['p_max'] = G.pick(rng, [15, 16, 17, 18])
        voy = next(t for t in ej['Transceiver'] if t['type_variety'] == 'Voyager')
        voy['mode'].append({'format': 'impossible', 'baud_rate': 32e9, 'OSNR': 45, 'bit_rate': 100e9, 'roll_off': 0.15,
                            'tx_osnr': 40, 'min_spacing': 37.5e9, 'cost': 1})
    if rng.random() < 0.4:
        ej = G.eqpt_json('eqpt_config_multiband.json')
        hook(ej)
        equipment = G.make_equipment(ej)
        tj = G.example_json('multiband_example_network.json')
        network = G.make_network(tj, equipment)
        SimParams.set_params({})
        G.design(equipment, network)
        return ej, tj, equipment, network
    b = P.build_multiband(rng, ej_hook=hook)
    return b['ej'], b['tj'], b['equipment'], b['network']


def build(rng, kind):
    if kind == 'multiband':
        return build_multiband(rng)
    ej = G.eqpt_json()
    G.vary_span_si(rng, ej, allow_eol=False, power_mode=True)
    if kind == 'sat':
        for e in ej['Edfa']:
            if e['type_variety'] in ('std_medium_gain', 'std_low_gain', 'std_high_gain'):
                e['p_max'] = G.pick(rng, [15, 16, 17, 18])
        r = ej['Roadm'][0]
        for k in ('target_pch_out_db', 'target_psd_out_mWperGHz', 'target_out_mWperSlotWidth'):
            r.pop(k, None)
        r['target_psd_out_mWperGHz'] = G.pick(rng, [3.125e-4, 5e-4])
        ej['SI'][0]['use_si_channel_count_for_design'] = G.pick(rng, [True, False])
    # an extra mode that is never feasible and modes for automatic selection
    voy = next(t for t in ej['Transceiver'] if t['type_variety'] == 'Voyager')
    voy['mode'].append({'format': 'impossible', 'baud_rate': 32e9, 'OSNR': 45, 'bit_rate': 100e9, 'roll_off': 0.15,
                        'tx_osnr': 40, 'min_spacing': 37.5e9, 'cost': 1})
    if kind == 'p2p':
        # point-to-point line without ROADMs, both directions
        tj = G.gen_p2p(rng, both=True, max_km=110)
    elif kind == 'ggn':
        tj, _ = G.gen_topology(rng, n_sites=2, max_spans=2, whole_km=True, max_km=90, user_amps=False, fused=False)
    else:
        tj, _ = G.gen_topology(rng, n_sites=rng.randint(2, 4), max_spans=3, whole_km=True, max_km=110,
                               user_amps=rng.random() < 0.5)
    equipment = G.make_equipment(ej)
    network = G.make_network(tj, equipment)
    SimParams.set_params({})
    G.design(equipment, network)
    return ej, tj, equipment, network


def gen_batch(rng, trx, sites_of, case_kind=None):
    reqs = []
    n = rng.randint(2, 8) if case_kind != 'ggn' else rng.randint(2, 4)
    for i in range(n):
        a, z = rng.sample(trx, 2)
        kind = G.pick(rng, ['fixed', 'fixed', 'auto', 'dense', 'hot', 'impossible', 'strict-unsat', 'bidir', 'imposed'])
        if kind == 'strict-unsat' and not sites_of:
            kind = 'bidir'
        if case_kind == 'ggn':
            # generalised GN methods: combs narrower and wider than the configured number of channels under test
            kind = G.pick(rng, ['sparse', 'sparse', 'wide', 'wide', 'imposed'])
        kw = dict(trx_type='Voyager', trx_mode=G.pick(rng, ['mode 1', 'mode 2', 'mode 3', 'mode 4']),
                  spacing=G.pick(rng, [75e9, 87.5e9]), max_nb=G.pick(rng, [None, 20, 40]))
        if kind == 'auto':
            kw['trx_mode'] = None
            kw['spacing'] = G.pick(rng, [50e9, 62.5e9, 75e9])
        elif kind == 'dense':
            kw.update(trx_mode='mode 1', spacing=37.5e9, max_nb=None)
        elif kind == 'hot':
            kw['power'] = G.pick(rng, [0.003, 0.005, 0.008])
            kw.update(trx_mode='mode 1', spacing=50e9, max_nb=None)
        elif kind == 'impossible':
            kw.update(trx_mode='impossible', spacing=50e9)
        elif kind == 'strict-unsat':
            others = [s for s in sites_of.values() if s not in (sites_of[a], sites_of[z])]
            kw['nodes'] = [sites_of[z], sites_of[a]] if not others else [G.pick(rng, others), sites_of[a]]
            kw['hops'] = ['STRICT', 'STRICT']
            kw.update(trx_mode='mode 1', spacing=50e9)
        elif kind == 'bidir':
            kw['bidir'] = True
        elif kind == 'imposed':
            # the user imposes the position of the frequency slot (only the spectrum outcome may depend on the batch)
            kw.update(trx_mode='mode 1', spacing=50e9, slots=[{'N': G.pick(rng, [-200, -120, 0, 40, 160]), 'M': 8}])
            if case_kind == 'ggn':
                kw['max_nb'] = 3
        elif kind == 'sparse':
            kw.update(trx_mode='mode 1', spacing=G.pick(rng, [50e9, 100e9]), max_nb=G.pick(rng, [2, 2, 3]))   # (one channel alone: the GGN methods raise IndexError, noted in DESIGN 12)
        elif kind == 'wide':
            kw.update(trx_mode='mode 1', spacing=50e9, max_nb=G.pick(rng, [7, 9, 12]))
        if kw.get('trx_mode') == 'mode 1' and kind in ('fixed', 'bidir'):
            kw['spacing'] = G.pick(rng, [50e9, 62.5e9])
        r = S.request(f'r{i}', a, z, **kw)
        # requests must differ so that they are not aggregated
        r['path-constraints']['te-bandwidth']['path_bandwidth'] = 100e9 + i * 1e9
        r['_kind'] = kind
        reqs.append(r)
    if rng.random() < 0.6 and case_kind != 'ggn':
        # twins: a second request between the same end points that differs from an earlier one in ONE respect only
        # (hop types, mode, spacing, launch power, comb size, direction flag, satisfiable or not route list).  Whatever
        # is shared or memoised between the requests of a batch must be keyed by all of these.
        for _ in range(rng.randint(1, 2)):
            src = G.pick(rng, reqs)
            t = deepcopy(src)
            te = t['path-constraints']['te-bandwidth']
            ero = t.get('explicit-route-objects', {}).get('route-object-include-exclude')
            how = G.pick(rng, ['hops', 'hops', 'mode', 'spacing', 'power', 'nb', 'route', 'bidir', 'tx_power', 'tx_power'])
            if how == 'hops' and not ero:
                how = 'route'
            if how == 'route' and not sites_of:
                how = 'nb'
            if how == 'hops':
                for o in ero:
                    o['num-unnum-hop']['hop-type'] = 'LOOSE' if o['num-unnum-hop']['hop-type'] == 'STRICT' else 'STRICT'
            elif how == 'route':
                a, z = t['source'], t['destination']
                others = [s for s in sites_of.values() if s not in (sites_of[a], sites_of[z])]
                nodes = [sites_of[z], sites_of[a]] if not others or rng.random() < 0.5 else [G.pick(rng, others)]
                hop = G.pick(rng, ['LOOSE', 'STRICT'])
                tt = S.request('x', a, z, nodes=nodes, hops=[hop] * len(nodes))
                t['explicit-route-objects'] = tt['explicit-route-objects']
            elif how == 'mode':
                te['trx_mode'] = G.pick(rng, [m for m in ('mode 1', 'mode 2', 'mode 3', 'mode 4', None) if m != te['trx_mode']])
                te['spacing'] = max(te['spacing'], 75e9)
            elif how == 'spacing':
                te['spacing'] = te['spacing'] + G.pick(rng, [12.5e9, 25e9])
            elif how == 'power':
                te['output-power'] = G.pick(rng, [0.0005, 0.002, 0.004])
            elif how == 'nb':
                te['max-nb-of-channel'] = G.pick(rng, [n for n in (10, 20, 40, 60) if n != te['max-nb-of-channel']])
            elif how == 'bidir':
                t['bidirectional'] = not t['bidirectional']
            elif how == 'tx_power':
                # the power at the transceiver output only (the launch power into the spans is the same): below the
                # add ROADM's target the channel enters the line weaker
                te['tx_power'] = G.pick(rng, [1e-6, 3e-6, 1e-5])     # (not the default: that would be the same request)
                if src['path-constraints']['te-bandwidth'].get('tx_power') == te['tx_power']:
                    te['tx_power'] = 2e-6
            t['request-id'] = f'r{len(reqs)}'
            te['path_bandwidth'] = 100e9 + len(reqs) * 1e9
            t['_kind'] = f'twin-{how}:' + src['_kind']

            def key(r):
                te_ = {k: v for k, v in r['path-constraints']['te-bandwidth'].items()
                       if k not in ('path_bandwidth', 'effective-freq-slot')}
                return json.dumps([r['source'], r['destination'], r['bidirectional'], r.get('explicit-route-objects'), te_],
                                  sort_keys=True)
            if key(t) != key(src):
                # (a draw may reproduce the model, e.g. the same route list: then the two ARE identical requests)
                t['_twin_of'] = src['request-id']
            # the twin comes right after its model, right before it, or anywhere
            pos = G.pick(rng, [reqs.index(src) + 1, reqs.index(src), rng.randint(0, len(reqs))])
            reqs.insert(pos, t)
    S.intify(rng, reqs)
    return reqs


def run_case(case, ctx):
    rng = ctx.rng
    ej, tj, equipment, network = build(rng, case['kind'])
    if case['kind'] == 'p2p':
        trx, sites_of = ['trx A', 'trx B'], {}
    else:
        model = S.SiteModel(network)
        trx, sites_of = sorted(model.roadm_of), model.roadm_of
    batch = gen_batch(rng, trx, sites_of, case['kind'])
    kinds = {r['request-id']: r.pop('_kind') for r in batch}
    twin_of = {r['request-id']: r.pop('_twin_of') for r in batch if '_twin_of' in r}
    ids = [r['request-id'] for r in batch]
    sim = {}
    if case['kind'] == 'ggn':
        sim = {'nli_params': {'method': G.pick(rng, ['ggn_approx', 'ggn_approx', 'ggn_spectrally_separated']),
                              'dispersion_tolerance': 1, 'phase_shift_tolerance': 0.1,
                              'computed_number_of_channels': G.pick(rng, [4, 5, 6])}}
    sync = []
    if case['kind'] == 'sync' and sites_of:
        # synchronisation vectors: the group is one unit; every ORDER of the whole batch must give every request the
        # same result (members that compete for the same shortest route included); vectors list their members in an
        # order of their own
        for r in batch:
            r.pop('explicit-route-objects', None)
        twin_of = {}            # (twins that differed in their route lists are identical requests now)
        pool = ids[:]
        rng.shuffle(pool)
        if len(pool) >= 2 and rng.random() < 0.6:
            # competing members: same end points
            a = next(r for r in batch if r['request-id'] == pool[0])
            b = next(r for r in batch if r['request-id'] == pool[1])
            b['source'], b['destination'] = a['source'], a['destination']
            b['src-tp-id'], b['dst-tp-id'] = a['src-tp-id'], a['dst-tp-id']
        while len(pool) >= 2 and len(sync) < 2:
            g = [pool.pop(), pool.pop()]
            if pool and rng.random() < 0.3:
                g.append(pool.pop())
            sync.append(S.synchronization(300 + len(sync), g))
        ctx.count('batches_with_synchronisation_vectors')
    base_digest = digest_network(network)
    net_ids = {id(n) for n in network.nodes()}
    attach.install()
    ref = {}
    runs = []
    # compositions: whole batch, each alone (up to 4), reversed, rotations, random orders
    orders = [ids[:]]
    for i in rng.sample(ids, min(4, len(ids))) if not sync else []:
        orders.append([i])
    orders.append(list(reversed(ids)))
    for i in rng.sample(ids, min(2, len(ids))):
        rest = [x for x in ids if x != i]
        rng.shuffle(rest)
        orders.append([i] + rest)
        orders.append(rest + [i])
    for _ in range(2):
        o = ids[:]
        rng.shuffle(o)
        orders.append(o)
    saturated_any = False
    touched_network_objects = 0
    for order in orders:
        data = {'path-request': [deepcopy(next(r for r in batch if r['request-id'] == i)) for i in order]}
        if sync:
            data['synchronization'] = deepcopy(sync)
        attach.reset()
        SimParams.set_params(deepcopy(sim))
        sim_before = json.dumps(sim_json(), sort_keys=True, default=repr)
        try:
            oms_list, prop, rprop, rqs, dsjn, result = planning(network, equipment, data)
        except ValueError as e:
            if 'propagation band does not match' in str(e) and order is orders[0]:
                # the generated line has amplifiers without any common band: not a line system, nothing to compare
                ctx.reject(f'no common amplifier band on the generated line: {e}')
                return
            raise
        except DisjunctionError:
            # no disjoint combination: the same for every order of the batch
            ctx.count('planning_runs')
            if ref.setdefault('__error__', order) is not order and any(k != '__error__' for k in ref):
                ctx.violation('result-depends-on-batch', f'disjunction error for batch order {order} only')
            continue
        finally:
            sim_after = json.dumps(sim_json(), sort_keys=True, default=repr)
            SimParams.set_params({})
        if '__error__' in ref:
            ctx.violation('result-depends-on-batch', f'disjunction error for batch order {ref["__error__"]} but not for {order}')
            return
        ctx.count('sim_params_checks')
        if sim_before != sim_after:
            ctx.violation('sim-params-changed', f'planning {order} changed the process-wide simulation parameters',
                          {'before': json.loads(sim_before), 'after': json.loads(sim_after)})
            ctx.dump.update({'topology': tj, 'batch': batch, 'order': order})
            return
        ctx.count('planning_runs')
        touched_network_objects += sum(1 for e in attach.EVENTS if id(e['el']) in net_ids)
        sat = sum(1 for e in attach.EVENTS if e['type'] == 'Edfa' and e.get('post') and e['pre']['effective_gain'] is not None
                  and e['post']['effective_gain'] < e['pre']['effective_gain'] - 1e-12)
        if sat:
            ctx.count('saturating_propagations', sat)
            saturated_any = True
        d = digest_network(network)
        ctx.count('network_digest_checks')
        if d != base_digest:
            a, b = json.loads(base_digest), json.loads(d)
            diff = [k for k in a if a[k] != b.get(k)][:5]
            ctx.violation('network-changed', f'after planning {order} the designed network settings differ: {diff}',
                          {'example': {k: (a[k], b.get(k)) for k in diff[:1]}})
            ctx.dump.update({'topology': tj, 'batch': batch, 'order': order})
            return
        for rq in rqs:
            # a twin differs from its model in one respect that matters for the result: the two are two requests
            members = rq.request_id.split(' | ')
            for m in members:
                if twin_of.get(m) in members:
                    ctx.violation('twin-requests-aggregated', f'requests {twin_of[m]} and {m} ({kinds.get(m)}) were merged into '
                                  f'one request ({rq.request_id}) although they differ')
                    ctx.dump.update({'topology': tj, 'batch': batch, 'order': order})
                    return
        ctx.count('twin_aggregation_checks', len(twin_of))
        for rq, res in zip(rqs, result):
            s = strip(res.json)
            ctx.count('request_results_compared')
            if rq.request_id not in ref:
                ref[rq.request_id] = (s, order)
            elif ref[rq.request_id][0] != s:
                r0, o0 = ref[rq.request_id]
                what = [k for k in s if s[k] != r0[k]]
                detail = {}
                if 'metrics' in what and s['metrics'] and r0['metrics']:
                    detail = {'first': r0['metrics']['fwd'][:6], 'now': s['metrics']['fwd'][:6]}
                ctx.violation('result-depends-on-batch', f'request {rq.request_id} ({kinds.get(rq.request_id)}): {what} '
                              f'differ between batch order {o0} and {order}', detail)
                ctx.dump.update({'topology': tj, 'batch': batch, 'orders': [o0, order],
                                 'equipment_edfa': ej['Edfa'], 'equipment_roadm': ej['Roadm'][:1], 'si': ej['SI']})
                return
        runs.append(order)
    ctx.count('propagations_on_network_objects', touched_network_objects)
    ref.pop('__error__', None)
    reasons = {i: ref[i][0]['reason'] for i in ref}
    if (saturated_any or any(reasons.values())) and any(v is None for v in reasons.values()):
        ctx.nontrivial((P.digest(tj), P.digest(batch)))
    ctx.cls(f'kind:{case["kind"]}', *(f'req:{k}' for k in kinds.values()),
            *(f'outcome:{v or "served"}' for v in reasons.values()))
    if not ctx.samples:
        ctx.sample({'batch': [{'id': r['request-id'], 'kind': kinds[r['request-id']], 'src': r['source'],
                               'dst': r['destination']} for r in batch], 'orders_run': runs[:6],
                    'outcomes': reasons})
