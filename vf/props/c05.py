"""C05 - fibre spans apply exactly their loss budget and accumulate CD, PMD, PDL, latency; Raman solver limits.

Monitors: (a) loss-budget checker over every Fiber crossing (independent interpolation of per-frequency loss);
(b) compositional accumulation oracle: each element's own contribution is measured in isolation from a zero-state
spectrum and every crossing / every path total must equal the linear sum (CD, latency) or root-sum-square (PMD,
PDL), for any span order; (c) Raman solver: low-power limit, perturbative vs numerical agreement, lumped loss applied
once, counter-propagating pumps only add gain.
"""
import math
from copy import deepcopy

import numpy as np

from gnpy.core.elements import Fiber, RamanFiber, Edfa, Roadm, Fused
from gnpy.core.parameters import SimParams
from gnpy.core.exceptions import NetworkTopologyError
from gnpy.core.science_utils import RamanSolver

from vf import attach, workload as W
from vf.gen import common as G
from vf.props import _prop_common as P
from vf.props.c02 import si_from_snap
from vf.props.c03 import make_si, rel_dev
from vf.ref import gn

ID = 'C05'
RULE = ('"net": generated designed networks (per-frequency loss, lumped losses, OpenROADM PMD/PDL) propagated, every '
        'fibre / ROADM / amplifier crossing judged; "line": hand-built lines of 1..12 non-identical spans crossed in '
        'several random orders; "raman": generated fibres x solver settings (perturbative order 1..4, numerical, '
        'resolutions, pump sets, lumped losses on and off the solver grid). Non-trivial: >=2 channels and >=2 '
        'different spans (net/line) or a Raman run with flag on. Distinct: hash of inputs.')
ASSUMPTIONS = ['numerical (Euler) solver judged within its own first-order error bound E = loss_dB * alpha * dz / 2 '
               '(+50 %); perturbative vs numerical within 0.01 dB + 1.5 E at 0 dBm per channel',
               'accumulation tolerances 1e-12 relative; loss budget 1e-9 dB']
REQUIRED_COUNTERS = {'fiber_loss_checks': 40, 'accumulation_crossings': 80, 'path_totals': 10, 'order_permutations': 10,
                     'raman_low_power_checks': 4, 'raman_method_agreement': 2, 'raman_lumped_checks': 2,
                     'raman_pump_monotonic': 2}
CASE_TIMEOUT = {'quick': 200, 'thorough': 400}
N1 = 1.468
C0 = 299792458.0


def plan(tier, seed):
    if tier == 'quick':
        kinds = ['net'] * 384 + ['line'] * 192 + ['raman'] * 128
    else:
        kinds = ['net'] * 3000 + ['line'] * 2400 + ['raman'] * 1500
    cases = []
    for i, k in enumerate(kinds):
        c = {'idx': i, 'kind': k}
        if k == 'net':
            c['flavour'] = ['mesh', 'openroadm', 'mesh_pd', 'mesh', 'multiband_gen', 'p2p'][i % 6]
        cases.append(c)
    return cases


# ------------------------------------------------------------------------------------------------ loss budget

def expected_fiber_loss_db(fiber, freqs):
    p = fiber.params
    lc = np.atleast_1d(np.asarray(p.loss_coef, dtype=float))      # dB/m
    if lc.size > 1:
        fr = np.asarray(p.f_loss_ref, dtype=float).tolist()
        per_m = np.array([gn.interp_lin(f, fr, lc.tolist()) for f in freqs])
    else:
        per_m = np.full(len(freqs), float(lc[0]))
    lumped = sum(float(ll['loss']) for ll in p.lumped_losses) if len(p.lumped_losses) else 0.0
    return p.att_in + p.con_in + per_m * p.length + lumped + p.con_out


def check_fiber_loss(ctx, e):
    b, a, el = e['before'], e['after'], e['el']
    if a is None or a.n != b.n:
        return
    got = 10 * np.log10(b.pch / a.pch)
    exp = expected_fiber_loss_db(el, b.frequency.tolist())
    ctx.count('fiber_loss_checks')
    ctx.cls('loss:perfreq' if np.atleast_1d(el.params.loss_coef).size > 1 else 'loss:scalar',
            'lumped:yes' if len(el.params.lumped_losses) else 'lumped:no')
    ctx.maxstat('fiber_loss_budget_dev_db', np.max(np.abs(got - exp)))
    if np.max(np.abs(got - exp)) > 1e-9:
        k = int(np.argmax(np.abs(got - exp)))
        ctx.violation('loss-budget', f'Fiber {el.uid}: channel {b.frequency[k]:.5e} lost {got[k]:.9f} dB, budget '
                      f'(padding+connectors+length x coefficient+lumped) is {exp[k]:.9f} dB',
                      {'params': {'length': el.params.length, 'att_in': el.params.att_in, 'con_in': el.params.con_in,
                                  'con_out': el.params.con_out, 'lumped': list(el.params.lumped_losses)}})


# ------------------------------------------------------------------------------------------------ accumulation

def zero_state(snap):
    s = deepcopy(snap)
    s.cd = np.zeros(s.n)
    s.pmd = np.zeros(s.n)
    s.pdl = np.zeros(s.n)
    s.latency = np.zeros(s.n)
    return s


def contribution(e):
    """Own contribution of the crossed element, measured in isolation from a zero-state spectrum."""
    el = deepcopy(e['el'])
    si = si_from_snap(zero_state(e['before']))
    if isinstance(el, Roadm):
        out = el(si, **e['args'])
    else:
        out = el(si)
    return attach.Snap(out)


def check_accumulation(ctx, e, contrib):
    b, a = e['before'], e['after']
    if a is None:
        return None
    idx = {f: i for i, f in enumerate(b.frequency.tolist())}
    sel = np.array([idx[f] for f in a.frequency.tolist()], dtype=int)
    if contrib.n != a.n:
        return None
    ctx.count('accumulation_crossings')
    where = f'{e["type"]} {e["uid"]}'
    exp = {'cd': b.cd[sel] + contrib.cd, 'latency': b.latency[sel] + contrib.latency,
           'pmd': np.sqrt(b.pmd[sel] ** 2 + contrib.pmd ** 2), 'pdl': np.sqrt(b.pdl[sel] ** 2 + contrib.pdl ** 2)}
    for k, v in exp.items():
        got = getattr(a, k)
        scale = np.maximum(np.abs(v), np.abs(got))
        if np.any(np.abs(got - v) > 1e-12 * scale + 1e-30):
            j = int(np.argmax(np.abs(got - v)))
            ctx.violation('accumulation', f'{where}: {k} after the element is {got[j]:.9e}; linear/quadrature '
                          f'accumulation of its own contribution {getattr(contrib, k)[j]:.9e} on {getattr(b, k)[sel][j]:.9e} '
                          f'gives {v[j]:.9e}', {'quantity': k})
            return None
    return contrib


def anchors(ctx, e, contrib):
    """Absolute anchors for a plain fibre: CD = D x L (no slope), PMD = coef x sqrt(L), latency = L n1 / c."""
    el = e['el']
    if e['type'] not in ('Fiber', 'RamanFiber'):
        return
    p = el.params
    ctx.count('anchor_checks')
    if abs(contrib.pmd[0] - p.pmd_coef * math.sqrt(p.length)) > 1e-12 * contrib.pmd[0] + 1e-40:
        ctx.violation('pmd-anchor', f'{el.uid}: PMD contribution {contrib.pmd[0]:.6e} != coef x sqrt(L)')
    if abs(contrib.latency[0] - p.length * N1 / C0) > 1e-12 * contrib.latency[0]:
        ctx.violation('latency-anchor', f'{el.uid}: latency contribution {contrib.latency[0]:.6e} != L n1 / c')
    if np.atleast_1d(p.dispersion).size == 1 and p.dispersion_slope is None:
        exp = float(p.dispersion) * p.length
        if np.any(np.abs(contrib.cd - exp) > 1e-9 * abs(exp)):
            ctx.violation('cd-anchor', f'{el.uid}: CD contribution {contrib.cd[0]:.6e} != D x L = {exp:.6e}')


def run_net(case, ctx):
    rng = ctx.rng
    scen = P.build_scenario(rng, case['flavour'], ctx, topo_kw={'lumped': True, 'per_freq_loss': True, 'dispersion_variants': True, 'dup_lumped': True})
    # the fibres of the network carry the values stated at element level in the topology document (whatever they are,
    # zero included), the library values otherwise
    doc = {e['uid']: e for e in scen['b']['tj']['elements'] if e['type'] in ('Fiber', 'RamanFiber')}
    for n in scen['network'].nodes():
        o = doc.get(n.uid.split('_(')[0])
        if o is None or not hasattr(n.params, 'pmd_coef'):
            continue
        stated = o.get('params', {}).get('pmd_coef')
        if stated is not None:
            ctx.count('element_level_pmd_checks')
            if abs(n.params.pmd_coef - stated) > 1e-30:
                ctx.violation('element-level-value', f'{n.uid}: the topology states pmd_coef = {stated}, the fibre of the '
                              f'network has {n.params.pmd_coef}')
                return
    for job in scen['jobs']:
        try:
            p, si, events, ops = W.propagate_copy(job['path'], job['req'], scen['equipment'])
        except W.NoChannelInBand:
            ctx.skip('no-channel-in-band')
            continue
        tot = {'cd': 0.0, 'latency': 0.0, 'pmd2': 0.0, 'pdl2': 0.0}
        complete = True
        top = [e for e in events if e['depth'] == 0]
        for e in top:
            if e['type'] == 'Fiber':
                check_fiber_loss(ctx, e)
            if e['type'] == 'Transceiver':
                continue
            c = contribution(e)
            c = check_accumulation(ctx, e, c)
            if c is None:
                complete = False
                continue
            anchors(ctx, e, c)
            # follow the first surviving channel for the end-to-end total
            f0 = top[-1]['after'].frequency[0]
            j = int(np.argmin(np.abs(c.frequency - f0)))
            tot['cd'] += c.cd[j]
            tot['latency'] += c.latency[j]
            tot['pmd2'] += c.pmd[j] ** 2
            tot['pdl2'] += c.pdl[j] ** 2
        last = top[-1]['after']
        if complete and last is not None:
            ctx.count('path_totals')
            got = (last.cd[0], last.latency[0], last.pmd[0], last.pdl[0])
            exp = (tot['cd'], tot['latency'], math.sqrt(tot['pmd2']), math.sqrt(tot['pdl2']))
            for name, g, x in zip(('CD', 'latency', 'PMD', 'PDL'), got, exp):
                if abs(g - x) > 1e-11 * max(abs(g), abs(x)) + 1e-30:
                    ctx.violation('path-total', f'{name} at the receiver {g:.9e} != composition of the crossed '
                                  f'elements {x:.9e}', {'route': [e['uid'] for e in top]})
            rx = p[-1]
            if abs(rx.chromatic_dispersion[0] - last.cd[0] * 1e3) > 1e-9 * abs(last.cd[0] * 1e3) + 1e-30 or \
                    abs(rx.pmd[0] - last.pmd[0] * 1e12) > 1e-9 * abs(rx.pmd[0]) + 1e-30 or \
                    abs(rx.latency[0] - last.latency[0] * 1e3) > 1e-9 * abs(rx.latency[0]) + 1e-30 or \
                    abs(rx.pdl[0] - last.pdl[0]) > 1e-9 * abs(rx.pdl[0]) + 1e-30:
                ctx.violation('receiver-impairments', 'receiver CD/PMD/PDL/latency differ from the accumulated values')
        n_spans = len({e['uid'] for e in top if e['type'] in ('Fiber', 'RamanFiber')})
        ctx.cls(f'net:{case["flavour"]}')
        if si.number_of_channels >= 2 and n_spans >= 2:
            ctx.nontrivial(('net', job['fp']))
        if not ctx.samples:
            ctx.sample({'kind': 'net', 'flavour': case['flavour'], 'route': [e['uid'] for e in top][:30],
                        'cd_ps_nm': float(p[-1].chromatic_dispersion[0]), 'pmd_ps': float(p[-1].pmd[0])})
        if ctx.violations:
            ctx.dump.update(scen['dump'])
            return


# ------------------------------------------------------------------------------------------------ lines

def gen_line(rng):
    """Hand-built heterogeneous spans: fibre (own type/length/dispersion/PMD) + amplifier with PMD/PDL."""
    spans = []
    n = rng.randint(1, 12)
    for i in range(n):
        fp = {'length': G.rnd(rng, 0.5, 140, 3), 'length_units': 'km', 'loss_coef': G.rnd(rng, 0.17, 0.26, 3),
              'pmd_coef': G.pick(rng, [1.265e-15, 3e-15, 0.5e-15, 2e-15]), 'con_in': G.pick(rng, [0, 0.5]),
              'con_out': G.pick(rng, [0, 0.5]), 'att_in': G.pick(rng, [0, 1.0]),
              'dispersion': G.pick(rng, [1.67e-05, 5e-06, 2.2e-05, -3e-06])}
        k = G.pick(rng, ['scalar', 'scalar', 'slope', 'perfreq'])
        if k == 'slope':
            fp['dispersion_slope'] = G.pick(rng, [58, 70, 45])
        elif k == 'perfreq':
            d = fp.pop('dispersion')
            fp['dispersion_per_frequency'] = {'value': [d * 1.1, d * 1.03, d * 0.98, d * 0.9],
                                              'frequency': [184e12, 191e12, 194e12, 199e12]}
            if rng.random() < 0.4:
                perm = rng.sample(range(4), 4)
                fp['dispersion_per_frequency'] = {k: [v[i] for i in perm]
                                                  for k, v in fp['dispersion_per_frequency'].items()}
        if rng.random() < 0.2:
            base = fp['loss_coef']
            tab = {'value': [round(base + 0.02, 4), base, round(base + 0.01, 4), round(base + 0.035, 4)],
                   'frequency': [184e12, 191e12, 194e12, 199e12]}
            if rng.random() < 0.5:
                perm = rng.sample(range(4), 4)
                tab = {k_: [v[i_] for i_ in perm] for k_, v in tab.items()}
            fp['loss_coef'] = tab
        if rng.random() < 0.3 and fp['length'] > 4:
            fp['lumped_losses'] = [{'position': round(fp['length'] * G.rnd(rng, 0.2, 0.8, 3), 3),
                                    'loss': G.pick(rng, [0.5, 1.0])}]
        spans.append({'fiber': fp, 'amp_pmd': G.pick(rng, [0, 0, 3e-12, 1e-12]),
                      'amp_pdl': G.pick(rng, [0, 0, 0.7, 0.3]), 'kind': k})
    return spans


def build_line(spans, equipment):
    els = []
    for i, s in enumerate(spans):
        f = Fiber(uid=f'span{i}', type_variety='SSMF', params=deepcopy(s['fiber']))
        f.ref_pch_in_dbm = 0.0
        els.append(f)
        prm = deepcopy(equipment['Edfa']['std_medium_gain'].__dict__)
        prm['pmd'], prm['pdl'] = s['amp_pmd'], s['amp_pdl']
        loss = float(f.loss)
        els.append(Edfa(uid=f'amp{i}', type_variety='std_medium_gain', params=prm,
                        operational={'gain_target': max(loss, 1.0), 'tilt_target': 0, 'out_voa': 0}))
    return els


def run_line(case, ctx):
    rng = ctx.rng
    SimParams.set_params({})
    equipment = G.make_equipment(G.eqpt_json())
    spans = gen_line(rng)
    carriers = G.gen_carriers(rng, n_max=12, n_min=2, max_dbm=0, min_dbm=-6)
    if len(carriers) < 2:
        return
    attach.install()
    results = []
    orders = [list(range(len(spans)))]
    for _ in range(3):
        o = orders[0][:]
        rng.shuffle(o)
        orders.append(o)
    cd_scale = 0.0      # sum of the spans' |CD|: positive and negative dispersion spans may cancel to ~0 in total
    for o in orders:
        els = build_line([spans[i] for i in o], equipment)
        si = make_si(carriers)
        attach.reset()
        for el in els:
            si = el(si)
        for e in list(attach.EVENTS):
            if e['type'] == 'Fiber':
                check_fiber_loss(ctx, e)
            c = check_accumulation(ctx, e, contribution(e))
            if c is not None:
                anchors(ctx, e, c)
                if o is orders[0]:
                    cd_scale += float(np.max(np.abs(c.cd)))
        results.append(attach.Snap(si))
        ctx.count('order_permutations')
    r0 = results[0]
    for o, r in zip(orders[1:], results[1:]):
        for k in ('cd', 'latency', 'pmd', 'pdl'):
            if (k == 'cd' and float(np.max(np.abs(r.cd - r0.cd))) > 1e-12 * max(cd_scale, 1e-300)) or \
                    (k != 'cd' and rel_dev(getattr(r, k), getattr(r0, k)) > 1e-12):
                ctx.violation('order-dependence', f'{k} depends on the span order: {getattr(r0, k)[0]:.12e} vs '
                              f'{getattr(r, k)[0]:.12e} for order {o}', {'spans': spans})
    # a per-frequency table is a set of pairs: the same line with every table listed by increasing frequency
    def sorted_tab(t):
        fr, va = zip(*sorted(zip(t['frequency'], t['value'])))
        return {'value': list(va), 'frequency': list(fr)}
    canon = deepcopy(spans)
    for s_ in canon:
        for key in ('dispersion_per_frequency', 'loss_coef'):
            if isinstance(s_['fiber'].get(key), dict):
                s_['fiber'][key] = sorted_tab(s_['fiber'][key])
    if canon != spans:
        si = make_si(carriers)
        for el in build_line(canon, equipment):
            si = el(si)
        rc = attach.Snap(si)
        ctx.count('table_order_checks')
        for k in ('cd', 'latency', 'pmd', 'pdl', 'pch'):
            if (k == 'cd' and float(np.max(np.abs(rc.cd - r0.cd))) > 1e-12 * max(cd_scale, 1e-300)) or \
                    (k != 'cd' and rel_dev(getattr(rc, k), getattr(r0, k)) > 1e-12):
                ctx.violation('table-order-dependence', f'{k} at the end of the line depends on the order in which a '
                              f'per-frequency table lists its points: {getattr(r0, k)[0]:.12e} vs '
                              f'{getattr(rc, k)[0]:.12e} with sorted tables', {'spans': spans})
    # independent totals
    f0 = r0.frequency
    ctx.count('path_totals')
    lat = sum(s['fiber']['length'] * 1e3 * N1 / C0 for s in spans)
    pmd = math.sqrt(sum(s['fiber']['pmd_coef'] ** 2 * s['fiber']['length'] * 1e3 + s['amp_pmd'] ** 2 for s in spans))
    pdl = math.sqrt(sum(s['amp_pdl'] ** 2 for s in spans))
    if abs(r0.latency[0] - lat) > 1e-12 * lat or abs(r0.pmd[0] - pmd) > 1e-12 * pmd or abs(r0.pdl[0] - pdl) > 1e-12 * pdl + 1e-30:
        ctx.violation('line-total', f'latency/PMD/PDL at the end ({r0.latency[0]:.9e}, {r0.pmd[0]:.9e}, {r0.pdl[0]:.9e}) '
                      f'!= sum / root-sum-square of the spans ({lat:.9e}, {pmd:.9e}, {pdl:.9e})', {'spans': spans})
    if all(s['kind'] == 'scalar' for s in spans):
        cd = sum(s['fiber']['dispersion'] * s['fiber']['length'] * 1e3 for s in spans)
        if np.any(np.abs(r0.cd - cd) > 1e-9 * abs(cd) + 1e-30):
            ctx.violation('line-total', f'CD at the end {r0.cd[0]:.9e} != sum of D x L = {cd:.9e}', {'spans': spans})
    ctx.cls('line', f'spans:{min(len(spans), 12)}')
    if len(spans) >= 2:
        ctx.nontrivial(('line', spans, len(carriers)))
    if not ctx.samples:
        ctx.sample({'kind': 'line', 'spans': spans[:3], 'n_spans': len(spans), 'orders': orders})


# ------------------------------------------------------------------------------------------------ raman

def raman_fibre(rng, pumps, lumped=None, length_km=None, cls=RamanFiber, loss_coef=None, att_in=0.0, con_in=0.0,
                con_out=0.0):
    length_km = length_km or G.rnd(rng, 40, 100, 2)
    p = {'length': length_km, 'length_units': 'km', 'loss_coef': loss_coef or G.pick(rng, [0.2, 0.19, 0.21]),
         'pmd_coef': 1.265e-15,
         'con_in': con_in, 'con_out': con_out, 'att_in': att_in}
    if lumped:
        p['lumped_losses'] = lumped
    if cls is RamanFiber:
        el = RamanFiber(uid='raman span', type_variety='SSMF', params=p,
                        operational={'temperature': 283, 'raman_pumps': pumps})
    else:
        el = Fiber(uid='plain span', type_variety='SSMF', params=p)
    el.ref_pch_in_dbm = 0.0
    return el, p


def out_loss_db(el, carriers):
    si = make_si(carriers)
    srs = RamanSolver.calculate_stimulated_raman_scattering(si, el)
    return -10 * np.log10(srs.loss_profile[:len(carriers), -1])


def set_sim(method, order, dz, res=10e3):
    SimParams.set_params({'raman_params': {'flag': True, 'method': method, 'order': order,
                                           'result_spatial_resolution': res, 'solver_spatial_resolution': dz}})


def uniform_comb(n, dbm, f0=191.6e12, spacing=100e9):
    return [{'frequency': f0 + i * spacing, 'slot_width': spacing, 'baud_rate': 64e9, 'roll_off': 0.15, 'tx_osnr': 40,
             'tx_power_dbm': dbm, 'delta_pdb': 0, 'label': 'c'} for i in range(n)]


def run_raman(case, ctx):
    rng = ctx.rng
    n = rng.randint(4, 16)
    length = G.rnd(rng, 40, 90, 1)
    loss_coef = None
    # -- low power limit without pumps (plain Fiber goes through the same solver when the flag is on)
    SimParams.set_params({})
    rng2 = __import__('random').Random(rng.random())
    el, fp = raman_fibre(rng2, [], length_km=length, cls=Fiber)
    low = uniform_comb(n, -60.0)
    ref = out_loss_db(el, low)
    alpha = fp['loss_coef'] * 1e-3 * math.log(10) / 10
    loss_db = fp['loss_coef'] * length
    for method, order in (('perturbative', G.pick(rng, [1, 2, 3, 4])), ('numerical', 1)):
        dz = G.pick(rng, [100, 50, 200]) if method == 'numerical' else G.pick(rng, [100, 500, 1000])
        set_sim(method, order, dz)
        got = out_loss_db(el, low)
        ctx.count('raman_low_power_checks')
        euler = loss_db * alpha * dz / 2
        tol = 1e-5 if method == 'perturbative' else 1.5 * euler + 1e-6
        ctx.maxstat(f'raman_low_power_{method}_dev_over_tol', np.max(np.abs(got - ref)) / tol)
        if np.max(np.abs(got - ref)) > tol:
            ctx.violation('raman-low-power-limit', f'{method} (order {order}, dz {dz}): low-power attenuation '
                          f'{got[0]:.6f} dB differs from the plain budget {ref[0]:.6f} dB by more than {tol:.2e}',
                          {'fibre': fp, 'method': method, 'dz': dz})
        if method == 'numerical':
            set_sim(method, order, dz / 5)
            got5 = out_loss_db(el, low)
            if np.max(np.abs(got5 - ref)) > np.max(np.abs(got - ref)) / 3 + 1e-7:
                ctx.violation('raman-numerical-convergence', 'numerical solver error does not shrink with the step',
                              {'dz': dz, 'err': float(np.max(np.abs(got - ref))), 'err5': float(np.max(np.abs(got5 - ref)))})
    # -- perturbative vs numerical (a) without pumps at high load: inter-channel SRS only
    pumps = [{'power': G.rnd(rng, 0.1, 0.25, 3), 'frequency': 205e12, 'propagation_direction': 'counterprop'},
             {'power': G.rnd(rng, 0.1, 0.25, 3), 'frequency': 201e12, 'propagation_direction': 'counterprop'}]
    hot = uniform_comb(rng.randint(16, 40), G.pick(rng, [0.0, 3.0, 5.0]))
    dz = G.pick(rng, [20, 50])
    euler = loss_db * alpha * dz / 2
    el0, _ = raman_fibre(rng2, [], length_km=length, cls=Fiber, loss_coef=fp['loss_coef'])
    set_sim('numerical', 1, dz)
    num = out_loss_db(el0, hot)
    order = G.pick(rng, [2, 3, 4])
    set_sim('perturbative', order, dz)
    per = out_loss_db(el0, hot)
    ctx.count('raman_method_agreement')
    tol = 0.01 + 1.5 * euler
    ctx.maxstat('raman_srs_agreement_dev_over_tol', np.max(np.abs(num - per)) / tol)
    ctx.maxstat('raman_srs_tilt_db', float(np.ptp(num)))
    if np.max(np.abs(num - per)) > tol:
        ctx.violation('raman-method-agreement', f'no pumps, {len(hot)} channels: perturbative order {order} and '
                      f'numerical differ by {np.max(np.abs(num - per)):.4f} dB (> {tol:.4f})',
                      {'fibre': fp, 'dz': dz, 'order': order})
    # (b) with a co-propagating pump: the perturbative series must converge towards the numerical solution
    copump = [{'power': G.rnd(rng, 0.2, 0.3, 3), 'frequency': 205e12, 'propagation_direction': 'coprop'}]
    elc, _ = raman_fibre(rng2, copump, length_km=length, loss_coef=fp['loss_coef'])
    comb = uniform_comb(n, 0.0)
    set_sim('numerical', 1, dz)
    num = out_loss_db(elc, comb)
    gain_db = float(loss_db - num.min())
    devs = []
    for order in (1, 2, 3, 4):
        set_sim('perturbative', order, dz)
        devs.append(float(np.max(np.abs(out_loss_db(elc, comb) - num))))
    ctx.count('raman_method_agreement')
    slack = 1.5 * euler + 2e-3
    bound4 = 0.0014 * gain_db ** 2 + 1.5 * euler + 0.003
    ctx.maxstat('raman_copump_order4_dev_over_bound', devs[3] / bound4)
    if any(devs[k + 1] > devs[k] + slack for k in range(3)) or devs[3] > bound4:
        ctx.violation('raman-method-agreement', f'co-propagating pump ({copump[0]["power"]} W, gain {gain_db:.2f} dB): '
                      f'deviation of perturbative orders 1..4 from the numerical solution {devs} does not converge '
                      f'(order-4 bound {bound4:.4f})', {'fibre': fp, 'dz': dz})
    el, fp = raman_fibre(rng2, pumps, length_km=length, loss_coef=fp['loss_coef'])
    # -- a lumped loss changes the low-power attenuation by exactly its value, once (on and off the solver grid)
    for method, order in (('perturbative', 2), ('numerical', 1)):
        dz = 100
        on_grid = rng.random() < 0.5
        pos_km = round(length * G.rnd(rng, 0.2, 0.8, 2), 1)
        if not on_grid:
            pos_km = round(pos_km + G.pick(rng, [0.0375, 0.0625, 0.0123, 0.0881]), 4)
        # (a negative value is a concentrated gain - an in-line booster modelled as a lumped element: applied once too)
        val = G.pick(rng, [0.5, 1.0, 2.0, 2.0, -1.0, -0.5])
        set_sim(method, order, dz)
        e0, _ = raman_fibre(rng2, [], length_km=length, cls=Fiber, loss_coef=fp['loss_coef'])
        lumped = [{'position': pos_km, 'loss': val}]
        if rng.random() < 0.3:
            # a second loss declared at the very same place (splice + connector): both count
            lumped.append({'position': pos_km, 'loss': G.pick(rng, [0.3, 0.7])})
            val = val + lumped[-1]['loss']
            ctx.count('raman_lumped_same_position')
        at_end = rng.random() < 0.15
        if at_end:
            # a position exactly at the span end: refused by the constructor ("boundaries excluded"); whatever fibre is
            # accepted has each of its lumped losses applied once
            for x in lumped:
                x['position'] = length
            pos_km = length
        try:
            e1, _ = raman_fibre(rng2, [], length_km=length, cls=Fiber, lumped=lumped, loss_coef=fp['loss_coef'])
        except NetworkTopologyError:
            if not at_end:
                raise
            ctx.count('raman_lumped_at_span_end_refused')
            continue
        d = out_loss_db(e1, low) - out_loss_db(e0, low)
        ctx.count('raman_lumped_checks')
        tol = 1e-6 if method == 'perturbative' else 3e-4
        ctx.maxstat(f'raman_lumped_{method}_dev_over_tol', np.max(np.abs(d - val)) / tol)
        if np.max(np.abs(d - val)) > tol:
            ctx.violation('raman-lumped-once', f'{method}: a {val} dB lumped loss at {pos_km} km ({"on" if on_grid else "off"} '
                          f'the solver grid) changes the attenuation by {d[0]:.5f} dB', {'length': length, 'dz': dz})
    # -- Raman computation off: a RamanFiber (pumps declared) is a plain fibre, exact loss budget, no noise added
    SimParams.set_params({})
    lumped = None
    if rng.random() < 0.5:
        pos_km = round(length * G.rnd(rng, 0.2, 0.8, 2), 1)
        lumped = [{'position': pos_km, 'loss': 0.5}] * rng.choice([1, 2])
    # (input attenuation and connectors set by the user on a Raman fibre are part of its budget like on any fibre)
    att = G.pick(rng, [0.0, 0.0, 1.5, 3.0])
    cin, cout = G.pick(rng, [0.0, 0.5]), G.pick(rng, [0.0, 0.25])
    eoff, poff = raman_fibre(rng2, pumps, length_km=length, loss_coef=fp['loss_coef'], lumped=lumped, att_in=att,
                             con_in=cin, con_out=cout)
    si = make_si(low)
    pin = np.array(si.pch)
    out = eoff(si)
    budget = att + cin + cout + poff['loss_coef'] * length + sum(x['loss'] for x in (lumped or []))
    got = 10 * np.log10(pin / out.pch)
    ctx.count('raman_off_checks')
    if np.max(np.abs(got - budget)) > 1e-9 or np.any(out._ase_ratio != 0):
        ctx.violation('raman-off-budget', f'RamanFiber with the Raman computation off: attenuation {got[0]:.9f} dB, '
                      f'budget {budget:.9f} dB, ASE share {float(np.max(out._ase_ratio)):.3e}',
                      {'fibre': poff, 'pumps': pumps})
    # -- Raman on, low power: an input attenuation of x dB in front of the (pumped) fibre costs exactly x dB
    set_sim('perturbative', 2, 100)
    xatt = G.pick(rng, [1.0, 2.5, 3.0])
    outs = []
    for a in (0.0, xatt):
        e_a, _ = raman_fibre(rng2, pumps, length_km=length, loss_coef=fp['loss_coef'], att_in=a)
        si_a = make_si(low)
        p_in = np.array(si_a.pch)
        outs.append(10 * np.log10(p_in / e_a(si_a).signal))      # (signal power: the total also holds the Raman ASE)
    ctx.count('raman_input_attenuation_checks')
    if np.max(np.abs(outs[1] - outs[0] - xatt)) > 1e-5:
        ctx.violation('raman-input-attenuation', f'pumped RamanFiber, low power: an input attenuation of {xatt} dB changes '
                      f'the loss by {float((outs[1] - outs[0])[0]):.6f} dB', {'pumps': pumps, 'length': length})
    # -- counter-propagating pumps only add gain
    set_sim('perturbative', 2, 100)
    base, _ = raman_fibre(rng2, [], length_km=length, loss_coef=fp['loss_coef'])
    l0 = out_loss_db(base, comb)
    one, _ = raman_fibre(rng2, pumps[:1], length_km=length, loss_coef=fp['loss_coef'])
    l1 = out_loss_db(one, comb)
    two, _ = raman_fibre(rng2, pumps, length_km=length, loss_coef=fp['loss_coef'])
    l2 = out_loss_db(two, comb)
    strong = deepcopy(pumps)
    strong[0]['power'] *= 1.5
    thr, _ = raman_fibre(rng2, strong, length_km=length, loss_coef=fp['loss_coef'])
    l3 = out_loss_db(thr, comb)
    ctx.count('raman_pump_monotonic')
    if np.any(l1 > l0 + 1e-9) or np.any(l2 > l1 + 1e-9) or np.any(l3 > l2 + 1e-9):
        ctx.violation('raman-pump-lowers-output', 'adding or strengthening a counter-propagating pump lowered a '
                      'channel output', {'l0': l0[:4], 'l1': l1[:4], 'l2': l2[:4], 'l3': l3[:4], 'pumps': pumps})
    SimParams.set_params({})
    ctx.cls('raman')
    ctx.nontrivial(('raman', length, n, pumps))
    if not ctx.samples:
        ctx.sample({'kind': 'raman', 'length_km': length, 'channels': n, 'pumps': pumps,
                    'gain_db_two_pumps': float(l0[0] - l2[0])})


def run_case(case, ctx):
    if case['kind'] == 'net':
        run_net(case, ctx)
    elif case['kind'] == 'line':
        run_line(case, ctx)
    else:
        run_raman(case, ctx)
