"""Line coverage of the gnpy package under the monitors' workloads (sys.monitoring, each location disabled after its
first hit, so the cost is negligible).  Enabled with VF_COVER=<dir>: every worker process dumps the set of executed
(file, line) pairs there; tools/coverage_report.py merges them.  Diagnostic only: it tells which code the workloads
never drive, it decides nothing."""
import atexit
import json
import os
import sys

_seen = set()


def start(outdir):
    mon = sys.monitoring
    tool = mon.COVERAGE_ID
    try:
        mon.use_tool_id(tool, 'vfcov')
    except ValueError:
        return

    def on_line(code, lineno):
        fn = code.co_filename
        if '/gnpy/' in fn and '/site-packages/' not in fn:
            _seen.add((fn, lineno))
        return mon.DISABLE
    mon.register_callback(tool, mon.events.LINE, on_line)
    mon.set_events(tool, mon.events.LINE)

    def dump():
        os.makedirs(outdir, exist_ok=True)
        with open(os.path.join(outdir, f'{os.getpid()}.json'), 'w') as f:
            json.dump(sorted(_seen), f)
    atexit.register(dump)
