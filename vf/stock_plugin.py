"""pytest plugin: runs the repository's own tests as one more workload *with the monitors on*.

Loaded by vf/stock.py with ``-p vf.stock_plugin`` in a scratch copy of the tree under test.  The element-call and
spectrum-operation recorders of vf.attach are installed once; after every test body the recorded events are judged by
the input-independent parts of the property monitors (no oracle here needs to know what the test built):

  C01  shares sum to one / lie in [0,1] at every element boundary; conservation law of every spectrum operation
  C02  no ratio improves across an element; passive elements and plain losses leave the three shares bit-identical
  C06  no channel leaves a ROADM with more power than it entered
  C07  per-channel identity data survive every element, frequencies stay strictly increasing, arrays equally long
  C14  every pth_assign_spectrum call: accepted ranges were free on every OMS of the path (both directions) before the
       call and are not shared with another request of the call; blocked requests carry no labels; the maps after the
       call are exactly the maps before it plus the accepted ranges
  C15  Bitmap index contiguous / unique / as long as the map (icontract class invariant)

The stock tests assert none of this (they compare end-of-line numbers); a change that keeps those numbers within the
tests' tolerances but breaks an intermediate law is seen here.  Results (per test: events judged, violations) go to the
JSON-lines file named by VF_STOCK_OUT.
"""
import json
import os

import numpy as np
import pytest

_state = {'out': None, 'mons': [], 'n_tests': 0}


class MiniCtx:
    def __init__(self):
        self.violations, self.counters, self.not_judged = [], {}, {}

    def violation(self, monitor, msg, witness=None, mechanism=None):
        if len(self.violations) < 5:
            from vf.runner import _jsonable
            self.violations.append({'monitor': monitor, 'msg': str(msg)[:1500], 'witness': _jsonable(witness),
                                    'mechanism': mechanism})

    def count(self, name, n=1):
        self.counters[name] = self.counters.get(name, 0) + n

    def skip(self, reason, n=1):
        self.not_judged[reason] = self.not_judged.get(reason, 0) + n

    def cls(self, *a):
        pass

    def maxstat(self, *a):
        pass

    def nontrivial(self, *a):
        pass


def judge_c01(ctx, events, ops):
    from vf.props import c01
    for e in events:
        ctx.count('element_events')
        for tag in ('before', 'after'):
            s = e[tag]
            if s is not None and s.n:
                c01.check_shares(ctx, s, f'{e["type"]} {e["uid"]} {tag}')
    for o in ops:
        # laws are stated for physical operands: tests also feed zero-power or not-a-number fixtures
        if not np.all(np.isfinite(o['before'].pch)) or o['before'].n == 0 or np.any(o['before'].pch <= 0):
            ctx.skip('operation-on-non-physical-spectrum')
            continue
        c01.check_op(ctx, o, 'operation')


def judge_c02(ctx, events, ops):
    from vf.props import c02
    for e in events:
        if e['after'] is None or e['before'].n == 0:
            continue
        if not np.all(e['before'].sr > 0):
            ctx.skip('element-fed-with-zero-signal')
            continue
        c02.check_event(ctx, e)
    c02.check_ops(ctx, ops)


def judge_c06(ctx, events, ops):
    for e in events:
        if e['type'] != 'Roadm' or e['after'] is None:
            continue
        b, a = e['before'], e['after']
        ctx.count('roadm_crossings')
        idx = {f: i for i, f in enumerate(b.frequency.tolist())}
        if any(f not in idx for f in a.frequency.tolist()):
            ctx.violation('roadm-channel-appeared', f'Roadm {e["uid"]}: a channel left that did not enter')
            continue
        sel = np.array([idx[f] for f in a.frequency.tolist()], dtype=int)
        if np.any(a.pch > b.pch[sel] * (1 + 1e-12)):
            k = int(np.argmax(a.pch / b.pch[sel]))
            ctx.violation('roadm-amplifies', f'Roadm {e["uid"]}: channel {a.frequency[k]:.6e} Hz leaves with '
                          f'{a.pch[k]:.6e} W, entered with {b.pch[sel][k]:.6e} W', {'before': b.brief(), 'after': a.brief()})


def judge_c07(ctx, events, ops):
    for e in events:
        b, a = e['before'], e['after']
        if a is None:
            continue
        ctx.count('element_identity_checks')
        where = f'{e["type"]} {e["uid"]}'
        if len(set(a.lengths().values())) != 1:
            ctx.violation('array-lengths', f'{where}: per-channel arrays of different lengths {a.lengths()}')
            continue
        if a.n > 1 and not np.all(np.diff(a.frequency) > 0):
            ctx.violation('frequency-order', f'{where}: output frequencies not strictly increasing')
            continue
        ib = {t[0]: t for t in b.identity()}
        for t in a.identity():
            if t[0] not in ib:
                ctx.violation('channel-appeared', f'{where}: channel {t[0]:.6e} Hz appeared')
                break
            if ib[t[0]] != t:
                ctx.violation('identity-changed', f'{where}: identity data of channel {t[0]:.6e} Hz changed: '
                              f'{ib[t[0]]} -> {t}')
                break
        if e['type'] not in ('Edfa', 'Multiband_amplifier') and a.n != b.n:
            ctx.violation('channel-lost', f'{where}: {b.n} channels entered, {a.n} left a non-amplifier element')


_PAS = []


def _install_assignment_recorder():
    import functools
    import gnpy.topology.spectrum_assignment as SA
    real = SA.pth_assign_spectrum

    @functools.wraps(real)
    def recorded(pths, rqs, oms_list, rpths, *a, **k):
        pths, rqs, rpths = list(pths), list(rqs), list(rpths)
        before = [(list(o.spectrum_bitmap.freq_index), list(o.spectrum_bitmap.bitmap)) for o in oms_list]
        pre_blocked = [hasattr(r, 'blocking_reason') for r in rqs]
        err = None
        try:
            return real(pths, rqs, oms_list, rpths, *a, **k)
        except Exception as e:  # noqa
            err = e
            raise
        finally:
            if len(_PAS) < 200:
                steps = []
                for pth, rq, rpth in zip(pths, rqs, rpths):
                    ids = sorted({e.oms_id for e in list(pth) + list(rpth) if hasattr(e, 'oms_id')})
                    steps.append({'id': rq.request_id, 'oms': ids, 'N': getattr(rq, 'N', None), 'M': getattr(rq, 'M', None),
                                  'blocked': getattr(rq, 'blocking_reason', None)})
                _PAS.append({'before': before, 'steps': steps, 'pre_blocked': pre_blocked, 'err': err,
                             'after': [(list(o.spectrum_bitmap.freq_index), list(o.spectrum_bitmap.bitmap))
                                       for o in oms_list]})
    SA.pth_assign_spectrum = recorded
    import sys
    for name in ('gnpy.tools.worker_utils',):
        m = sys.modules.get(name)
        if m is not None and getattr(m, 'pth_assign_spectrum', None) is real:
            m.pth_assign_spectrum = recorded


def judge_c14(ctx, events, ops):
    from gnpy.topology.spectrum_assignment import BitmapValue
    FREE, OCC = BitmapValue.FREE, BitmapValue.OCCUPIED
    for call in _PAS:
        ctx.count('assignment_calls')
        if call['err'] is not None:
            ctx.skip('assignment-call-raised')     # fixtures also feed malformed requests on purpose
            continue
        maps = [dict(zip(fi, bm)) for fi, bm in call['before']]
        taken = [set() for _ in maps]
        bad = False
        for st in call['steps']:
            ctx.count('requests_in_calls')
            where = f'request {st["id"]} on OMS {st["oms"]}'
            if st['blocked'] is not None or st['N'] is None:
                ctx.count('blocked')
                if st['N'] is not None or st['M'] is not None:
                    ctx.violation('blocked-with-labels', f'{where}: blocked ({st["blocked"]}) but N/M = {st["N"]}/{st["M"]}')
                    bad = True
                continue
            try:
                ranges = [(n - m, n + m - 1) for n, m in zip(st['N'], st['M']) if m is not None]
            except TypeError:
                ctx.skip('labels-not-lists')
                bad = True
                break
            ctx.count('accepted')
            for a, b in ranges:
                for k in st['oms']:
                    if k >= len(maps):
                        continue
                    notfree = [n for n in range(a, b + 1) if maps[k].get(n) != FREE]
                    dbl = [n for n in range(a, b + 1) if n in taken[k]]
                    if notfree or dbl:
                        ctx.violation('double-booking', f'{where}: range [{a}, {b}] was accepted but slots '
                                      f'{(notfree or dbl)[:6]} were {"not free before the call" if notfree else "given to an earlier request of the same call"} on OMS {k}')
                        bad = True
                    taken[k].update(range(a, b + 1))
        if bad:
            continue
        ctx.count('final_occupancy_checks')
        for k, (fi, bm) in enumerate(call['after']):
            exp = [OCC if n in taken[k] else maps[k].get(n) for n in fi]
            if list(call['before'][k][0]) != list(fi):
                ctx.skip('map-extent-changed-during-call')
                continue
            if exp != list(bm):
                diff = [n for n, x, y in zip(fi, bm, exp) if x != y][:6]
                ctx.violation('final-occupancy', f'OMS {k}: the map after the call differs from the map before it plus '
                              f'the accepted ranges at slots {diff}')
                break


JUDGES = {'C14': judge_c14, 'C01': judge_c01, 'C02': judge_c02, 'C06': judge_c06, 'C07': judge_c07}
_INV = {'n': 0, 'fail': []}


def _install_bitmap_invariant():
    import icontract
    import gnpy.topology.spectrum_assignment as SA

    class BitmapInvariantBroken(Exception):
        pass

    def bitmap_consistent(self):
        _INV['n'] += 1
        fi, bm = list(self.freq_index), list(self.bitmap)
        ok = len(fi) == len(bm) and len(set(fi)) == len(fi) and all(b - a == 1 for a, b in zip(fi[:-1], fi[1:])) \
            and (not fi or (fi[0] == self.n_min and fi[-1] == self.n_max))
        if not ok:
            _INV['fail'].append(f'n_min {self.n_min} n_max {self.n_max} index {fi[:3]}..{fi[-3:]} '
                                f'len(index) {len(fi)} len(map) {len(bm)}')
        return True
    SA.Bitmap = icontract.invariant(bitmap_consistent, error=BitmapInvariantBroken)(SA.Bitmap)


def pytest_configure(config):
    _state['out'] = open(os.environ['VF_STOCK_OUT'], 'a')
    _state['mons'] = [m for m in os.environ.get('VF_STOCK_MON', 'C01,C02,C06,C07,C14,C15').split(',') if m]
    import logging
    from vf import attach
    attach.install()
    if 'C15' in _state['mons']:
        _install_bitmap_invariant()
    if 'C14' in _state['mons']:
        _install_assignment_recorder()
    logging.getLogger('vf').info('monitors installed')


@pytest.hookimpl(hookwrapper=True)
def pytest_runtest_call(item):
    from vf import attach
    attach.reset(record_ops=True)
    _INV['n'] = 0
    _INV['fail'].clear()
    _PAS.clear()
    outcome = yield
    events, ops = list(attach.EVENTS), list(attach.OPS)
    attach.reset(record_ops=False)
    rec = {'test': item.nodeid, 'passed': outcome.excinfo is None, 'events': len(events), 'ops': len(ops), 'monitors': {}}
    for m in _state['mons']:
        ctx = MiniCtx()
        try:
            if m == 'C15':
                ctx.count('bitmap_invariant_evaluations', _INV['n'])
                for f in _INV['fail'][:3]:
                    ctx.violation('bitmap-invariant', f'spectrum map index broken: {f}')
            else:
                JUDGES[m](ctx, events[:4000], ops[:8000])
        except Exception as e:  # noqa  a judge that cannot read a fixture's objects decides nothing
            ctx.skip(f'judge-error:{type(e).__name__}:{str(e)[:80]}')
        rec['monitors'][m] = {'counters': ctx.counters, 'violations': ctx.violations, 'not_judged': ctx.not_judged}
    _state['out'].write(json.dumps(rec) + '\n')
    _state['out'].flush()
