"""Independent amplifier reference: noise-figure models written from docs/amplifier_models_description.rst and the
two-coil operator model, plus the quantum-limited ASE formula.  Works on the *library description* of a model
(the JSON entry), never on gnpy's derived nf_model objects."""
import math

H = 6.62607015e-34


def db2lin(x):
    return 10 ** (x / 10)


def lin2db(x):
    return 10 * math.log10(x)


def two_coil(gain_min, gain_max, nf_min, nf_max):
    """Operator ("variable_gain") model: NF(g) = nf1 + nf2 / g1a(g) with the mid-stage VOA absorbing the gain
    reduction twice (first-stage gain follows the VOA).  Returns (nf1, nf2, delta_p) in dB."""
    delta_p = 5.0
    g1a_min = gain_min - (gain_max - gain_min) - delta_p
    g1a_max = gain_max - delta_p
    nf2 = lin2db((db2lin(nf_min) - db2lin(nf_max)) / (1 / db2lin(g1a_max) - 1 / db2lin(g1a_min)))
    nf1 = lin2db(db2lin(nf_min) - db2lin(nf2) / db2lin(g1a_max))
    if not nf1 + 0.3 < nf2 < nf1 + 2:
        nf2 = min(max(nf2, nf1 + 0.3), nf1 + 2)
        g1a_max = lin2db(db2lin(nf2) / (db2lin(nf_min) - db2lin(nf1)))
        delta_p = gain_max - g1a_max
    return nf1, nf2, delta_p


def polyval(coefs, x):
    r = 0.0
    for c in coefs:
        r = r * x + c
    return r


class AmpModel:
    """entry: the library JSON entry of the model; lib: dict name -> entry (for dual stage); adv: advanced config."""

    def __init__(self, entry, lib=None, adv=None):
        self.e = entry
        self.lib = lib or {}
        self.adv = adv or {}
        self.type_def = entry.get('type_def', 'variable_gain')

    def single_nf(self, e, gain, pin_ch_50ghz=None, adv=None):
        """average NF in dB of a single-stage model at the requested gain (input padding below gain_min included)."""
        td = e.get('type_def', 'variable_gain')
        gmin, gmax = e['gain_min'], e['gain_flatmax']
        pad = max(gmin - gain, 0.0)
        g = gain + pad
        dg = max(gmax - g, 0.0)
        if td == 'variable_gain':
            nf1, nf2, dp = two_coil(gmin, gmax, e['nf_min'], e['nf_max'])
            g1a = g - dp - dg
            nf = lin2db(db2lin(nf1) + db2lin(nf2) / db2lin(g1a))
        elif td == 'fixed_gain':
            nf = e['nf0']
        elif td == 'advanced_model':
            nf = polyval((adv or self.adv)['nf_fit_coeff'], -dg)
        elif td == 'openroadm':
            nf = pin_ch_50ghz - polyval(e['nf_coef'], pin_ch_50ghz) + 58
        elif td == 'openroadm_preamp':
            nf = pin_ch_50ghz - min((4 * pin_ch_50ghz + 275) / 7, 33) + 58
        elif td == 'openroadm_booster':
            nf = float('-inf')
        else:
            raise ValueError(td)
        return nf + pad

    def nf(self, gain, pin_ch_50ghz=None):
        if self.type_def == 'dual_stage':
            pre = self.lib[self.e['preamp_variety']]
            boo = self.lib[self.e['booster_variety']]
            g1 = pre['gain_flatmax']
            nf1 = self.single_nf(pre, g1, pin_ch_50ghz)
            nf2 = self.single_nf(boo, gain - g1, pin_ch_50ghz)
            return lin2db(db2lin(nf1) + db2lin(nf2 - g1))
        return self.single_nf(self.e, gain, pin_ch_50ghz)

    def p_max(self):
        if self.type_def == 'dual_stage':
            return self.lib[self.e['booster_variety']]['p_max']
        return self.e['p_max']

    def gain_flatmax(self):
        if self.type_def == 'dual_stage':
            return self.lib[self.e['booster_variety']]['gain_flatmax'] + self.lib[self.e['preamp_variety']]['gain_flatmax']
        return self.e['gain_flatmax']


def ase_power(freq, baud, nf_db):
    """Quantum-limited ASE referred to the amplifier input, in W, in the signal bandwidth."""
    return H * freq * baud * db2lin(nf_db)
