"""Declared fraction digits per leaf name, read from the YANG models of the tree under test (the authority for
"declared precision"), independently of gnpy.yang.precision_dict."""
import re
from pathlib import Path

import gnpy

_cache = {}


def _block(text, start):
    """text[start] == '{' -> index of the matching '}'."""
    depth = 0
    for i in range(start, len(text)):
        c = text[i]
        if c == '{':
            depth += 1
        elif c == '}':
            depth -= 1
            if depth == 0:
                return i
    return len(text)


def declared_digits():
    if _cache:
        return _cache
    ydir = Path(gnpy.__file__).parent / 'yang'
    out = {}
    for f in sorted(ydir.glob('*.yang')):
        text = re.sub(r'//[^\n]*', '', f.read_text(encoding='utf-8'))
        typedefs = {}
        for m in re.finditer(r'\btypedef\s+([\w\-]+)\s*\{', text):
            body = text[m.end() - 1:_block(text, m.end() - 1)]
            d = re.search(r'fraction-digits\s+(\d+)', body)
            if d:
                typedefs[m.group(1)] = int(d.group(1))
        for m in re.finditer(r'\bleaf(?:-list)?\s+([\w\-]+)\s*\{', text):
            body = text[m.end() - 1:_block(text, m.end() - 1)]
            d = re.search(r'fraction-digits\s+(\d+)', body)
            digits = None
            if d:
                digits = int(d.group(1))
            else:
                t = re.search(r'\btype\s+(?:[\w\-]+:)?([\w\-]+)\s*[;{]', body)
                if t and t.group(1) in typedefs:
                    digits = typedefs[t.group(1)]
            if digits is not None:
                out.setdefault(m.group(1), set()).add(digits)
    _cache.update({k: min(v) for k, v in out.items()})
    return _cache
