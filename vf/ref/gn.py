"""Independent scalar reference for the GN-model closed form (eq. 120 / 123 of arXiv:1209.0394) and for the fibre
parameters it needs, written from the paper and the parameter definitions (not from gnpy.core.science_utils)."""
import math

C = 299792458.0
N2 = 2.6e-20          # m^2/W, silica
LN10_10 = math.log(10) / 10


def interp_lin(x, xs, ys):
    xs, ys = zip(*sorted(zip(xs, ys)))       # a table is a set of (x, y) pairs: listing order carries no meaning
    if x < xs[0] or x > xs[-1]:
        raise ValueError('outside table')
    for i in range(len(xs) - 1):
        if xs[i] <= x <= xs[i + 1]:
            t = (x - xs[i]) / (xs[i + 1] - xs[i])
            return ys[i] + t * (ys[i + 1] - ys[i])
    return ys[-1]


class FibreDef:
    """Fibre described by its user-level parameters (SI units where not stated)."""

    def __init__(self, length_m, loss_db_km, dispersion=None, dispersion_slope=None, dispersion_per_frequency=None,
                 gamma=None, effective_area=None, ref_frequency=None, ref_wavelength=None):
        self.length = length_m
        self.loss = loss_db_km            # scalar dB/km or {'value': [...], 'frequency': [...]}
        self.dispersion = dispersion      # s/m/m
        self.slope = dispersion_slope     # s/m/m/m
        self.dpf = dispersion_per_frequency
        if ref_wavelength is not None:
            self.f_ref = C / ref_wavelength
        elif ref_frequency is not None:
            self.f_ref = ref_frequency
        else:
            self.f_ref = C / 1550e-9
        lam_ref = C / self.f_ref
        if gamma is not None and effective_area is None:
            self.gamma_ref = gamma
        else:
            a_eff = effective_area if effective_area is not None else 83e-12
            self.gamma_ref = 2 * math.pi * N2 / (lam_ref * a_eff)

    def alpha(self, f):
        """Power attenuation coefficient in 1/m from the loss coefficient in dB/km."""
        if isinstance(self.loss, dict):
            db_km = interp_lin(f, self.loss['frequency'], self.loss['value'])
        else:
            db_km = self.loss
        return db_km * 1e-3 * LN10_10

    def beta2(self, f):
        lam = C / f
        if self.dpf is not None:
            d = interp_lin(f, self.dpf['frequency'], self.dpf['value'])
            return -lam ** 2 * d / (2 * math.pi * C)
        d = 1.67e-05 if self.dispersion is None else self.dispersion
        if self.slope is None:
            # no slope given: beta3 = 0, beta2 is the value at the reference wavelength
            lam_ref = C / self.f_ref
            return -lam_ref ** 2 * d / (2 * math.pi * C)
        lam_ref = C / self.f_ref
        d = d + self.slope * (lam - lam_ref)
        return -lam ** 2 * d / (2 * math.pi * C)


def gn_nli(fdef, freqs, bauds, powers, gamma_ratio=None, spm=16.0 / 27.0, xpm=32.0 / 27.0):
    """NLI power per channel [W] generated in the fibre (referred to the fibre input) by the closed form."""
    n = len(freqs)
    alpha = [fdef.alpha(f) for f in freqs]
    b2 = [fdef.beta2(f) for f in freqs]
    out = []
    for i in range(n):
        g = fdef.gamma_ref * (gamma_ratio[i] if gamma_ratio is not None else 1.0)
        tot = 0.0
        for j in range(n):
            a = alpha[j]
            la = 1.0 / a
            leff = (1.0 - math.exp(-a * fdef.length)) / a
            beta = abs((b2[i] + b2[j]) / 2)
            df = freqs[j] - freqs[i]
            k = math.pi ** 2 * la * beta * bauds[i]
            psi = (math.asinh(k * (df + bauds[j] / 2)) - math.asinh(k * (df - bauds[j] / 2))) / (4 * math.pi * beta * la)
            psi *= leff ** 2
            w = spm if i == j else xpm
            tot += w * g * g * powers[i] * powers[j] ** 2 * psi / bauds[j] ** 2
        out.append(tot)
    return out
