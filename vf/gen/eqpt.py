"""Synthetic amplifier library entries (G-EQPT), rejection-sampled so that the real loader accepts them."""
from copy import deepcopy

from gnpy.core.science_utils import estimate_nf_model
from gnpy.core.exceptions import EquipmentConfigError

from vf.gen.common import pick, rnd


def synth_variable_gain(rng, name, *, f_min=None, f_max=None, allowed=True):
    for _ in range(200):
        gmin = rnd(rng, 5, 26, 1)
        gmax = round(gmin + rnd(rng, 4, 14, 1), 1)
        nf_min = rnd(rng, 4.6, 8.5, 2)
        nf_max = round(nf_min + rnd(rng, 0.8, 6.5, 2), 2)
        try:
            estimate_nf_model(name, gmin, gmax, nf_min, nf_max)
        except EquipmentConfigError:
            continue
        e = {'type_variety': name, 'type_def': 'variable_gain', 'gain_flatmax': gmax, 'gain_min': gmin,
             'p_max': rnd(rng, 14, 26, 1), 'nf_min': nf_min, 'nf_max': nf_max,
             'out_voa_auto': rng.random() < 0.3, 'allowed_for_design': allowed}
        if f_min is not None:
            e['f_min'], e['f_max'] = f_min, f_max
        return e
    raise RuntimeError('could not sample a variable gain amplifier')


def synth_fixed_gain(rng, name, *, f_min=None, f_max=None, allowed=True):
    g = rnd(rng, 8, 28, 1)
    e = {'type_variety': name, 'type_def': 'fixed_gain', 'gain_flatmax': round(g + pick(rng, [0, 1, 2]), 1), 'gain_min': g,
         'p_max': rnd(rng, 14, 25, 1), 'nf0': rnd(rng, 4.5, 9, 2), 'allowed_for_design': allowed}
    if f_min is not None:
        e['f_min'], e['f_max'] = f_min, f_max
    return e


def synth_advanced(rng, name, *, allowed=True):
    gmin = rnd(rng, 10, 18, 1)
    return {'type_variety': name, 'type_def': 'advanced_model', 'gain_flatmax': round(gmin + rnd(rng, 6, 12, 1), 1),
            'gain_min': gmin, 'p_max': rnd(rng, 17, 24, 1),
            'advanced_config_from_json': pick(rng, ['std_medium_gain_advanced_config.json', 'Juniper-BoosterHG.json']),
            'out_voa_auto': rng.random() < 0.3, 'allowed_for_design': allowed}


def synth_openroadm(rng, name, *, allowed=True):
    kind = pick(rng, ['openroadm', 'openroadm', 'openroadm_preamp', 'openroadm_booster'])
    e = {'type_variety': name, 'type_def': kind, 'gain_flatmax': pick(rng, [27, 32, 25]), 'gain_min': pick(rng, [0, 0, 8]),
         'p_max': pick(rng, [22, 20, 23]), 'allowed_for_design': allowed}
    if kind == 'openroadm':
        e['nf_coef'] = pick(rng, [[-8.104e-4, -6.221e-2, -5.889e-1, 37.62], [-5.952e-4, -6.250e-2, -1.071, 28.99],
                                  [-5.952e-4, -6.250e-2, -1.071, 27.99]])
    return e


def synth_library(rng, n=8, *, prefix='syn', kinds=('variable_gain', 'variable_gain', 'fixed_gain', 'advanced_model'),
                  dual=True, allowed_ratio=0.8):
    """Returns a list of Edfa entries (single-band, default band) including dual-stage combinations."""
    out = []
    for i in range(n):
        k = pick(rng, list(kinds))
        name = f'{prefix}_{k[:3]}_{i}'
        allowed = rng.random() < allowed_ratio
        if k == 'variable_gain':
            out.append(synth_variable_gain(rng, name, allowed=allowed))
        elif k == 'fixed_gain':
            out.append(synth_fixed_gain(rng, name, allowed=allowed))
        elif k == 'advanced_model':
            out.append(synth_advanced(rng, name, allowed=allowed))
        else:
            out.append(synth_openroadm(rng, name, allowed=allowed))
    if dual and len(out) >= 2:
        singles = [e for e in out if e['type_def'] in ('variable_gain', 'fixed_gain')]
        for j in range(rng.randint(0, 2)):
            if len(singles) < 2:
                break
            pre, boo = rng.sample(singles, 2)
            out.append({'type_variety': f'{prefix}_dual_{j}', 'type_def': 'dual_stage',
                        'gain_min': round(pre['gain_flatmax'] + boo['gain_min'], 1),
                        'preamp_variety': pre['type_variety'], 'booster_variety': boo['type_variety'],
                        'raman': False, 'allowed_for_design': rng.random() < allowed_ratio})
    return deepcopy(out)
