"""Shared seeded generators: equipment libraries, meshed topologies, spectra, and helpers around the real loaders."""
import json
from copy import deepcopy
from pathlib import Path

import gnpy
from gnpy.tools.json_io import _equipment_from_json, network_from_json, load_gnpy_json, network_to_json
from gnpy.tools.default_edfa_config import DEFAULT_EXTRA_CONFIG
from gnpy.tools.worker_utils import designed_network
from gnpy.core.parameters import SimParams

EXAMPLES = Path(gnpy.__file__).parent / 'example-data'
TESTDATA = Path(gnpy.__file__).parent.parent / 'tests' / 'data'
_cache = {}


TIER = 'quick'        # set by the runner before each case; only widens what the generators draw


def eqpt_json(name='eqpt_config.json'):
    """Legacy-form JSON of a shipped equipment library (deep copy)."""
    if name not in _cache:
        p = EXAMPLES / name
        if not p.exists():
            p = TESTDATA / name
        _cache[name] = load_gnpy_json(p)
    return deepcopy(_cache[name])


def example_json(name):
    if name not in _cache:
        p = EXAMPLES / name
        if not p.exists():
            p = TESTDATA / name
        _cache[name] = load_gnpy_json(p)
    return deepcopy(_cache[name])


def make_equipment(ej, extra_configs=None):
    cfg = dict(DEFAULT_EXTRA_CONFIG)
    if extra_configs:
        cfg.update(extra_configs)
    return _equipment_from_json(deepcopy(ej), cfg)


def make_network(tj, equipment):
    return network_from_json(deepcopy(tj), equipment)


def reset_sim_params(sim=None):
    SimParams.set_params(deepcopy(sim) if sim else {})


def design(equipment, network, **kw):
    return designed_network(equipment, network, **kw)


def pick(rng, seq):
    return seq[rng.randrange(len(seq))]


def rnd(rng, lo, hi, nd=3):
    return round(rng.uniform(lo, hi), nd)


# ---------------------------------------------------------------------------------------------------------------
# equipment variations


def vary_span_si(rng, ej, *, allow_gain_mode=True, allow_eol=True, allow_policy=True, power_mode=None,
                 vary_grid=True):
    """Mutates Span / SI / default Roadm of a legacy equipment JSON in place; returns a description."""
    span = ej['Span'][0]
    si = ej['SI'][0]
    desc = {}
    pm = power_mode if power_mode is not None else (rng.random() < 0.7 or not allow_gain_mode)
    span['power_mode'] = pm
    span['delta_power_range_db'] = pick(rng, [[-2, 3, 0.5], [0, 0, 0], [-1, 1, 0.25], [-3, 4, 1], [-2, 3, 0.1],
                                              [-1.2, 1.8, 0.5], [-0.7, 2.1, 0.2],
                                              # ranges that do not contain 0 (the offset before a ROADM is 0 all the same)
                                              [1, 3, 0.5], [-3, -1, 0.5]])
    span['padding'] = pick(rng, [10, 10, 8, 12, 11, 6])
    span['EOL'] = pick(rng, [0, 0, 0, 0.5, 1.5]) if allow_eol else 0
    span['con_in'] = pick(rng, [0, 0, 0.5, 0.25])
    span['con_out'] = pick(rng, [0, 0, 0.5, 0.3])
    span['max_length'] = pick(rng, [150, 150, 135, 120, 100])
    if rng.random() < 0.2:
        # the same limit written in metres (length_units is part of the Span description)
        span['max_length'], span['length_units'] = span['max_length'] * 1000, 'm'
    span['target_extended_gain'] = pick(rng, [2.5, 2.5, 0, 1])
    if rng.random() < 0.4:
        span['power_slope'] = pick(rng, [0.3, 0.2, 0.33, 0.5])
        span['span_loss_ref'] = pick(rng, [20.0, 18.0, 22.5])
    if rng.random() < 0.3:
        span['voa_margin'] = pick(rng, [1, 0.5, 2, 0])
        span['voa_step'] = pick(rng, [0.5, 0.25, 1])
    if vary_grid and rng.random() < 0.35:
        # another reference channel / another design band than the stock 32 GBd on 50 GHz over the full C band
        si['baud_rate'], si['spacing'] = pick(rng, [(64e9, 75e9), (32e9, 37.5e9), (90e9, 100e9), (45e9, 62.5e9)])
        if rng.random() < 0.5:
            si['f_min'], si['f_max'] = pick(rng, [(191.3e12, 195.1e12), (192.0e12, 196.0e12), (191.4e12, 193.6e12)])
    si['power_dbm'] = pick(rng, [0, 0, 1, -1, 2, 0.5, -2])
    si['sys_margins'] = pick(rng, [2, 0, 1.5, 3])
    if rng.random() < 0.5:
        si['tx_power_dbm'] = pick(rng, [0, -2, 1, 3])
    else:
        si.pop('tx_power_dbm', None)
    si['use_si_channel_count_for_design'] = rng.random() < 0.6
    if allow_policy:
        r = ej['Roadm'][0]
        pol = pick(rng, ['power', 'power', 'psd', 'psw'])
        for k in ('target_pch_out_db', 'target_psd_out_mWperGHz', 'target_out_mWperSlotWidth'):
            r.pop(k, None)
        if pol == 'power':
            r['target_pch_out_db'] = pick(rng, [-20, -18, -21.5, -17, -23])
        elif pol == 'psd':
            r['target_psd_out_mWperGHz'] = pick(rng, [3.125e-4, 2.5e-4, 5e-4, 2e-4])
        else:
            r['target_out_mWperSlotWidth'] = pick(rng, [2e-4, 1.5e-4, 3e-4])
        desc['policy'] = pol
    desc.update(power_mode=pm, eol=span['EOL'], padding=span['padding'], dpr=span['delta_power_range_db'])
    return desc


def synthetic_roadm_variety(rng, name='vf_impair_full'):
    """ROADM library entry with detailed impairment profiles in which every field of the data model takes a value
    (PMD, CD, PDL, in-band crosstalk, maximum loss, add/drop OSNR), per frequency range."""
    def items(kind):
        edges = [184e12, 190.5e12, 193.0e12, 195.0e12, 200e12]
        out = []
        # (an OSNR figure on some ranges of a profile only is a listed finding of C13: per profile, all ranges or none)
        with_nf, without_osnr = rng.random() < 0.5, rng.random() < 0.5
        for lo, hi in zip(edges[:-1], edges[1:]):
            it = {'frequency-range': {'lower-frequency': lo, 'upper-frequency': hi},
                  'roadm-pmd': pick(rng, [0, 1e-12, 3e-12]), 'roadm-cd': pick(rng, [0, 0, 5e-12]),
                  'roadm-pdl': pick(rng, [0, 0.5, 1.0]), 'roadm-inband-crosstalk': pick(rng, [0, 30, 35, 40]),
                  'roadm-maxloss': pick(rng, [0, 3.0, 6.5, 11.5])}
            if kind != 'express':
                it['roadm-osnr'] = pick(rng, [41, 38, 35])
            # fields of the data model that the propagation does not use (amplified blocks): a noise figure with or
            # without an OSNR figure, maximum power, typical / minimum loss
            if with_nf:
                it['roadm-noise-figure'] = pick(rng, [5.0, 8.0, 15.0])
                if without_osnr:
                    it.pop('roadm-osnr', None)
            if rng.random() < 0.3:
                it['roadm-pmax'] = pick(rng, [2.5, 0, 10])
            out.append(it)
        return out
    return {'type_variety': name, 'target_pch_out_db': pick(rng, [-20, -18, -22]), 'add_drop_osnr': 38, 'pmd': 0,
            'pdl': 0, 'restrictions': {'preamp_variety_list': [], 'booster_variety_list': []},
            'roadm-path-impairments': [
                {'roadm-path-impairments-id': 0, 'roadm-express-path': items('express')},
                {'roadm-path-impairments-id': 1, 'roadm-add-path': items('add')},
                {'roadm-path-impairments-id': 2, 'roadm-drop-path': items('drop')}]}


# ---------------------------------------------------------------------------------------------------------------
# topologies

FIBER_TYPES = ['SSMF', 'SSMF', 'NZDF', 'LOF']


def _loc(i, j=0):
    return {'location': {'latitude': float(i), 'longitude': float(j), 'city': None, 'region': ''}}


def gen_fiber(rng, uid, *, length=None, whole_km=False, allow_none_con=True, max_km=140, min_km=1.0,
              per_freq_loss=False, lumped=False, dispersion_variants=False, dup_lumped=False):
    if length is None:
        r = rng.random()
        if r < 0.1:
            length = rnd(rng, min_km, 15, 3)
        elif r < 0.85:
            length = rnd(rng, 30, min(max_km, 110), 3)
        else:
            length = rnd(rng, 110, max_km, 3)
    if whole_km:
        length = float(max(1, round(length)))
    params = {'length': length, 'length_units': 'km', 'loss_coef': pick(rng, [0.2, 0.2, 0.21, 0.19, 0.22, 0.25, 0.18]),
              'att_in': pick(rng, [0, 0, 0, 0.5, 1.0])}
    if allow_none_con and rng.random() < 0.5:
        params['con_in'] = None
        params['con_out'] = None
    else:
        params['con_in'] = pick(rng, [0, 0.5, 0.3, 1.0])
        params['con_out'] = pick(rng, [0, 0.5, 0.4, 1.0])
    if rng.random() < 0.3:
        params['pmd_coef'] = pick(rng, [3e-15, 1e-15, 2.5e-15, 0])     # (0: a fibre without PMD, stated as such)
    if per_freq_loss:
        base = params.pop('loss_coef')
        params['loss_coef'] = {'value': [round(base + 0.02, 4), round(base, 4), round(base + 0.01, 4),
                                         round(base + 0.035, 4)],
                               'frequency': [184e12, 191e12, 194e12, 198e12]}
    if per_freq_loss and rng.random() < 0.4:
        # tables are (frequency, value) pairs: the order in which the user lists them carries no meaning
        t = params['loss_coef']
        perm = rng.sample(range(4), 4) if rng.random() < 0.5 else [3, 2, 1, 0]
        t['value'], t['frequency'] = [t['value'][i] for i in perm], [t['frequency'][i] for i in perm]
    if dispersion_variants:
        r = rng.random()
        d = pick(rng, [1.67e-05, 5e-06, 2.2e-05])
        if r < 0.25:
            params['dispersion'], params['dispersion_slope'] = d, pick(rng, [58, 70, 45])
        elif r < 0.45:
            tab = {'value': [d * 1.1, d * 1.03, d * 0.98, d * 0.9], 'frequency': [184e12, 191e12, 194e12, 199e12]}
            if rng.random() < 0.4:
                perm = rng.sample(range(4), 4)
                tab = {k: [v[i] for i in perm] for k, v in tab.items()}
            params['dispersion_per_frequency'] = tab
        elif r < 0.6:
            # a normal-dispersion fibre (element-level scalar, negative)
            params['dispersion'] = pick(rng, [-4e-06, -8e-06])
    if lumped and length > 3:
        n = rng.randint(1, 2)
        pos = sorted(rnd(rng, 0.1 * length, 0.9 * length, 3) for _ in range(n))
        if n == 2 and pos[0] == pos[1]:
            pos[1] = round(pos[1] + 0.007, 3)      # (two draws may coincide: equal positions are made on purpose only)
        if dup_lumped and n == 2 and rng.random() < 0.2:
            # two losses declared at the same place (splice + connector); not expressible in the YANG format,
            # where the position is the list key
            pos[1] = pos[0]
        params['lumped_losses'] = [{'position': p, 'loss': pick(rng, [0.5, 1.0, 1.5, 0.3])} for p in pos]
    return {'uid': uid, 'type': 'Fiber', 'type_variety': pick(rng, FIBER_TYPES), 'params': params,
            'metadata': _loc(0, 0)}


def gen_edfa(rng, uid, *, settings=None, varieties=None, power_mode=True):
    """User-placed amplifier with full / partial / no settings."""
    settings = settings or pick(rng, ['none', 'none', 'variety', 'partial', 'full', 'list', 'auto-full'])
    varieties = varieties or ['std_medium_gain', 'std_low_gain', 'std_high_gain', 'std_fixed_gain',
                              'high_detail_model_example', 'operator_model_example']
    el = {'uid': uid, 'type': 'Edfa', 'type_variety': '', 'metadata': _loc(0, 0),
          'operational': {'gain_target': None, 'delta_p': None, 'tilt_target': 0, 'out_voa': None}}
    if settings == 'none':
        pass
    elif settings == 'variety':
        el['type_variety'] = pick(rng, varieties)
    elif settings == 'list':
        el.pop('type_variety')
        el['variety_list'] = rng.sample(varieties[:4], rng.randint(1, 3))
    elif settings == 'partial':
        el['type_variety'] = pick(rng, varieties)
        which = pick(rng, ['voa', 'dp', 'gain', 'tilt'])
        if which == 'voa':
            el['operational']['out_voa'] = pick(rng, [0, 0.5, 1.0, 2.0])
        elif which == 'dp':
            el['operational']['delta_p'] = pick(rng, [0, 1.0, -1.0, 2.5, 0.5])
        elif which == 'gain':
            el['operational']['gain_target'] = pick(rng, [15.0, 18.5, 20.0, 22.0, 12.0])
        else:
            el['operational']['tilt_target'] = pick(rng, [0, -0.5, 1.0])
    elif settings == 'full':
        el['type_variety'] = pick(rng, varieties)
        el['operational'] = {'gain_target': pick(rng, [15.0, 17.3, 20.0, 22.0, 25.0, 12.0]),
                             'delta_p': pick(rng, [0, 1.0, -1.5, 2.0, None]),
                             'tilt_target': pick(rng, [0, 0, -1.0, 0.8]),
                             'out_voa': pick(rng, [0, 0, 1.0, 2.5])}
        if rng.random() < 0.2:
            el['operational']['in_voa'] = pick(rng, [0, 0.5, 1.0])
    elif settings == 'auto-full':
        # every operational value stated, the model left to auto-design
        el['operational'] = {'gain_target': pick(rng, [15.0, 20.0, 25.0, 33.0]), 'delta_p': pick(rng, [0, 1.0, None]),
                             'tilt_target': pick(rng, [0, 0, -1.0]), 'out_voa': pick(rng, [0, 1.0]),
                             'in_voa': pick(rng, [0, 1.0, 2.0])}
    el['_settings'] = settings
    return el


def egress_degree_uid(roadm_uid, next_uid, typ):
    """uid of the element that will be adjacent to the ROADM on this egress after auto-design."""
    return f'Edfa_booster_{roadm_uid}_to_{next_uid}' if typ[next_uid] in ('Fiber', 'RamanFiber') else next_uid


def ingress_degree_uid(roadm_uid, prev_uid, typ):
    return f'Edfa_preamp_{roadm_uid}_from_{prev_uid}' if typ[prev_uid] in ('Fiber', 'RamanFiber') else prev_uid


def gen_p2p(rng, *, max_spans=4, user_amps=True, fused=True, both=None, max_km=140, long_fibers=False,
            lumped=False, per_freq_loss=False):
    """Point-to-point line without any ROADM (as the shipped edfa_example_network.json): Transceiver - fibres, with
    or without user-placed amplifiers / fused junctions - Transceiver, one or both directions."""
    both = rng.random() < 0.7 if both is None else both
    els = [{'uid': 'trx A', 'type': 'Transceiver', 'metadata': _loc(0, 0)},
           {'uid': 'trx B', 'type': 'Transceiver', 'metadata': _loc(1, 1)}]
    cx = []
    for src, dst in ([('A', 'B'), ('B', 'A')] if both else [('A', 'B')]):
        k = rng.randint(1, max_spans)
        chain = []
        after_fused = False
        for j in range(k):
            length = rnd(rng, 160, 420, 3) if long_fibers and rng.random() < 0.3 and not after_fused else None
            chain.append(gen_fiber(rng, f'fiber ({src} → {dst})-{j}', length=length,
                                   max_km=min(max_km, 90) if after_fused else max_km,
                                   lumped=lumped and rng.random() < 0.3,
                                   per_freq_loss=per_freq_loss and rng.random() < 0.3))
            if j < k - 1 or rng.random() < 0.5:
                r = rng.random()
                if user_amps and r < 0.45:
                    after_fused = False
                    chain.append(gen_edfa(rng, f'amp ({src} → {dst})-{j}', settings=pick(rng, ['variety', 'none', 'full'])))
                elif fused and r < 0.6 and j < k - 1 and not after_fused and chain[-1]['params']['length'] <= 110:
                    after_fused = True
                    chain.append({'uid': f'fused ({src} → {dst})-{j}', 'type': 'Fused', 'params': {'loss': pick(rng, [0.5, 1, 2])},
                                  'metadata': _loc(0, 0)})
                else:
                    after_fused = False
        for e in chain:
            e.pop('_settings', None)
        els += chain
        u = [f'trx {src}'] + [e['uid'] for e in chain] + [f'trx {dst}']
        cx += list(zip(u[:-1], u[1:]))
    return {'network_name': 'vf point to point', 'elements': els,
            'connections': [{'from_node': a, 'to_node': b} for a, b in cx]}


def gen_topology(rng, *, n_sites=None, max_sites=5, max_spans=3, whole_km=False, user_amps=True, fused=True,
                 max_km=140, extra_links=None, roadm_params=None, per_degree=False, lumped=False,
                 per_freq_loss=False, long_fibers=False, amp_varieties=None, roadm_variety=None,
                 no_booster_fused=False, dispersion_variants=False, dup_lumped=False, chassis=False):
    """Random meshed topology in legacy JSON form. Both directions of each link are built independently
    (asymmetric lengths/losses). Returns (topology json, description)."""
    n = n_sites or rng.randint(2, max_sites)
    if TIER == 'thorough' and rng.random() < 0.3:
        # thorough tier: a share of larger meshes and longer links than the quick tier ever builds
        n = min(n + rng.randint(1, 3), 8)
        max_spans = max_spans + rng.randint(0, 3)
    sites = [chr(ord('A') + i) for i in range(n)]
    els, cx = [], []
    for i, s in enumerate(sites):
        els.append({'uid': f'trx {s}', 'type': 'Transceiver', 'metadata': _loc(i, i)})
        r = {'uid': f'roadm {s}', 'type': 'Roadm', 'metadata': _loc(i, i), 'params': {}}
        if roadm_variety:
            r['type_variety'] = roadm_variety
        if roadm_params:
            r['params'].update(deepcopy(roadm_params(rng, s)))
        els.append(r)
        cx.append((f'trx {s}', f'roadm {s}'))
        cx.append((f'roadm {s}', f'trx {s}'))
    # connected link set: random spanning tree + extra links
    links = set()
    order = sites[:]
    rng.shuffle(order)
    for i in range(1, n):
        a = order[i]
        b = order[rng.randrange(i)]
        links.add(tuple(sorted((a, b))))
    n_extra = extra_links if extra_links is not None else rng.randint(0, max(0, n - 1))
    cand = [(a, b) for i, a in enumerate(sites) for b in sites[i + 1:] if (a, b) not in links]
    rng.shuffle(cand)
    for ab in cand[:n_extra]:
        links.add(ab)
    links = sorted(links)
    desc = {'sites': sites, 'links': links, 'dirs': {}}
    for a, b in links:
        for src, dst in ((a, b), (b, a)):
            k = rng.randint(1, max_spans)
            chain = []
            info = {'fibers': [], 'junctions': []}
            after_fused = False
            for j in range(k):
                fuid = f'fiber ({src} → {dst})-{j}'
                length = None
                if long_fibers and rng.random() < 0.3 and not after_fused:
                    length = rnd(rng, 160, 420, 3)
                # fibres spliced by a fused element form one unamplified span: keep it within what a real line has
                # (two fibres, the second at most 90 km) - several hundred km without amplifier only produce
                # noise-dominated channels far outside the regime the models claim
                f = gen_fiber(rng, fuid, length=length, whole_km=whole_km, max_km=min(max_km, 90) if after_fused else max_km,
                              lumped=lumped
                              and rng.random() < 0.3, per_freq_loss=per_freq_loss and rng.random() < 0.3,
                              dispersion_variants=dispersion_variants, dup_lumped=dup_lumped)
                chain.append(f)
                info['fibers'].append(fuid)
                if j < k - 1:
                    r = rng.random()
                    if fused and r < 0.2 and not after_fused and f['params']['length'] <= 110:
                        after_fused = True
                        chain.append({'uid': f'fused ({src} → {dst})-{j}', 'type': 'Fused',
                                      'params': {'loss': pick(rng, [0, 0.5, 1.0, 1])}, 'metadata': _loc(0, 0)})
                        info['junctions'].append('fused')
                    elif user_amps and r < 0.55:
                        after_fused = False
                        chain.append(gen_edfa(rng, f'amp ({src} → {dst})-{j}', varieties=amp_varieties))
                        info['junctions'].append('edfa:' + chain[-1]['_settings'])
                        if fused and rng.random() < 0.15:
                            # a fused element (patch panel, splice box) right after the amplifier: the span starts
                            # with it
                            after_fused = True
                            chain.append({'uid': f'fused after amp ({src} → {dst})-{j}', 'type': 'Fused',
                                          'params': {'loss': pick(rng, [0, 0.5, 1.0])}, 'metadata': _loc(0, 0)})
                            info['junctions'].append('fused-after-amp')
                    else:
                        after_fused = False
                        info['junctions'].append('none')
            # optional user-placed booster / preamp
            if user_amps and rng.random() < 0.3:
                chain.insert(0, gen_edfa(rng, f'booster {src} to {dst}', varieties=amp_varieties))
                info['booster'] = chain[0]['_settings']
            elif no_booster_fused and rng.random() < 0.15:
                chain.insert(0, {'uid': f'fused booster {src} to {dst}', 'type': 'Fused',
                                 'params': {'loss': 0}, 'metadata': _loc(0, 0)})
                info['booster'] = 'fused'
            if user_amps and rng.random() < 0.3:
                chain.append(gen_edfa(rng, f'preamp {dst} from {src}', varieties=amp_varieties))
                info['preamp'] = chain[-1]['_settings']
            for e in chain:
                e.pop('_settings', None)
            els.extend(chain)
            uids = [f'roadm {src}'] + [e['uid'] for e in chain] + [f'roadm {dst}']
            cx.extend(zip(uids[:-1], uids[1:]))
            desc['dirs'][f'{src}>{dst}'] = info
    typ = {e['uid']: e['type'] for e in els}
    if per_degree:
        # per-degree targets of a policy type possibly different from the node default
        for e in els:
            if e['type'] == 'Roadm' and rng.random() < 0.6:
                # fibres that may be split by auto-design get another name: no per-degree entry for them
                byuid = {x['uid']: x for x in els}
                degs = [egress_degree_uid(e['uid'], t, typ) for f, t in cx if f == e['uid'] and not t.startswith('trx')
                        and not (typ[t] == 'Fiber' and byuid[t]['params']['length'] >= 99)]
                for d in degs:
                    r = rng.random()
                    if r < 0.25:
                        e['params'].setdefault('per_degree_pch_out_db', {})[d] = pick(rng, [-20, -18.5, -22, -16])
                    elif r < 0.5:
                        e['params'].setdefault('per_degree_psd_out_mWperGHz', {})[d] = \
                            pick(rng, [3.125e-4, 2e-4, 4e-4])
                    elif r < 0.7:
                        e['params'].setdefault('per_degree_psd_out_mWperSlotWidth', {})[d] = \
                            pick(rng, [2e-4, 1.2e-4, 3e-4])
    if chassis:
        # one more transceiver, attached to a ROADM through a fibre line (an external chassis transponder)
        a = f'roadm {rng.choice(sites)}'
        els.append({'uid': 'trx X', 'type': 'Transceiver', 'metadata': _loc(9, 9)})
        for src, dst in (('trx X', a), (a, 'trx X')):
            chain = [gen_fiber(rng, f'fiber ({src} → {dst})-{j}', max_km=min(max_km, 100)) for j in range(rng.randint(1, 2))]
            els += chain
            u = [src] + [c['uid'] for c in chain] + [dst]
            cx.extend(zip(u[:-1], u[1:]))
        desc['chassis'] = a
    tj = {'network_name': 'vf generated', 'elements': els,
          'connections': [{'from_node': f, 'to_node': t} for f, t in cx]}
    return tj, desc


# ---------------------------------------------------------------------------------------------------------------
# spectra


def gen_uniform_spectrum_params(rng, f_min=191.3e12, f_max=196.1e12):
    spacing = pick(rng, [37.5e9, 50e9, 50e9, 62.5e9, 75e9, 87.5e9, 100e9, 150e9])
    baud = pick(rng, [b for b in (28e9, 32e9, 34e9, 44e9, 60e9, 64e9, 66e9, 90e9, 130e9) if b <= spacing])
    return {'f_min': f_min, 'f_max': f_max, 'spacing': spacing, 'baud_rate': baud, 'roll_off': pick(rng, [0.15, 0.1, 0]),
            'tx_osnr': pick(rng, [40, 35, 45, 38.5]), 'tx_power_dbm': rnd(rng, -10, 5, 2),
            'delta_pdb': pick(rng, [0, 0, 1.0, -1.5])}


def gen_carriers(rng, f_lo=191.4e12, f_hi=196.0e12, n_max=60, n_min=1, max_dbm=5.0, min_dbm=-12.0, grid=6.25e9):
    """Arbitrary non-overlapping carrier list as a list of dicts; frequencies integer multiples of `grid`."""
    out = []
    f = f_lo + rng.randint(0, 20) * grid
    parts = rng.randint(1, 4)
    kinds = []
    for p in range(parts):
        slot = pick(rng, [37.5e9, 50e9, 62.5e9, 75e9, 100e9, 112.5e9, 150e9])
        baud = pick(rng, [b for b in (28e9, 32e9, 34e9, 44e9, 60e9, 64e9, 66e9, 90e9, 95e9, 130e9) if b <= slot])
        kinds.append({'slot_width': slot, 'baud_rate': baud, 'roll_off': pick(rng, [0.15, 0.1, 0.0]),
                      'tx_osnr': pick(rng, [40, 35, 45, 37.5]), 'tx_power_dbm': rnd(rng, min_dbm, max_dbm, 2),
                      'delta_pdb': pick(rng, [0, 0, 1.0, -1.0, 2.0, -2.5]), 'label': f'{p}-{baud * 1e-9:.2f}G'})
    n = rng.randint(n_min, n_max)
    prev_hi = None
    while len(out) < n:
        k = pick(rng, kinds)
        lo_edge = f - k['slot_width'] / 2
        if prev_hi is not None and lo_edge < prev_hi:
            f = prev_hi + k['slot_width'] / 2
        if f + k['slot_width'] / 2 > f_hi:
            break
        c = dict(k)
        c['frequency'] = float(f)
        if rng.random() < 0.2:
            c['tx_power_dbm'] = rnd(rng, min_dbm, max_dbm, 2)
        out.append(c)
        prev_hi = f + k['slot_width'] / 2
        gap = pick(rng, [0, 0, 0, 1, 2, 8, 40]) * grid
        f = prev_hi + gap + 0  # next centre computed at loop start
    return out


def carriers_to_initial_spectrum(carriers):
    from gnpy.core.info import Carrier
    from gnpy.core.utils import dbm2watt
    return {c['frequency']: Carrier(delta_pdb=c['delta_pdb'], baud_rate=c['baud_rate'], slot_width=c['slot_width'],
                                    roll_off=c['roll_off'], tx_osnr=c['tx_osnr'],
                                    tx_power=dbm2watt(c['tx_power_dbm']), label=c['label']) for c in carriers}


def carriers_to_si(carriers, shuffle_rng=None, pch_dtype=None):
    import numpy as np
    from gnpy.core.info import create_arbitrary_spectral_information
    from gnpy.core.utils import dbm2watt
    cs = list(carriers)
    if shuffle_rng is not None:
        shuffle_rng.shuffle(cs)
    return create_arbitrary_spectral_information(
        frequency=np.array([c['frequency'] for c in cs]),
        pch=np.array([dbm2watt(c['tx_power_dbm']) for c in cs], dtype=pch_dtype),
        baud_rate=np.array([c['baud_rate'] for c in cs]), slot_width=np.array([c['slot_width'] for c in cs]),
        roll_off=np.array([c['roll_off'] for c in cs]), tx_osnr=np.array([c['tx_osnr'] for c in cs]),
        tx_power=np.array([dbm2watt(c['tx_power_dbm']) for c in cs]),
        delta_pdb_per_channel=np.array([c['delta_pdb'] for c in cs]), label=np.array([c['label'] for c in cs]))


def all_trx_paths(network, max_paths=None, rng=None):
    """Simple ROADM-level paths between transceivers (for propagation workloads)."""
    from gnpy.core.elements import Transceiver
    trx = sorted((n for n in network.nodes() if isinstance(n, Transceiver)), key=lambda n: n.uid)
    pairs = [(a, b) for a in trx for b in trx if a is not b]
    if rng is not None:
        rng.shuffle(pairs)
    return pairs[:max_paths] if max_paths else pairs
