"""Service (path-request) document generator and an independent ROADM-level model of a designed network."""
from copy import deepcopy

from gnpy.core.elements import Roadm, Transceiver, Fiber

from vf.gen.common import pick, rnd


def request(rid, src, dst, *, trx_type='Voyager', trx_mode='mode 1', spacing=50e9, nodes=None, hops=None, bidir=False,
            slots=None, path_bandwidth=100e9, max_nb=None, power=None, tx_power=None):
    te = {'technology': 'flexi-grid', 'trx_type': trx_type, 'trx_mode': trx_mode,
          'effective-freq-slot': slots if slots is not None else [{'N': None, 'M': None}],
          'spacing': spacing, 'max-nb-of-channel': max_nb, 'output-power': power, 'path_bandwidth': path_bandwidth}
    if tx_power is not None:
        te['tx_power'] = tx_power
    r = {'request-id': str(rid), 'source': src, 'destination': dst, 'src-tp-id': src, 'dst-tp-id': dst,
         'bidirectional': bool(bidir), 'path-constraints': {'te-bandwidth': te}}
    if nodes:
        r['explicit-route-objects'] = {'route-object-include-exclude': [
            {'explicit-route-usage': 'route-include-ero', 'index': i,
             'num-unnum-hop': {'node-id': n, 'link-tp-id': 'link-tp-id is not used', 'hop-type': h}}
            for i, (n, h) in enumerate(zip(nodes, hops))]}
    return r


def intify(rng, reqs, share=0.25):
    """Numbers written without decimal point or exponent in a JSON file arrive as integers: spacing, bandwidth and
    channel counts of a share of the requests are turned into int when they are whole numbers."""
    for r in reqs:
        if rng.random() < share:
            te = r['path-constraints']['te-bandwidth']
            for k in ('spacing', 'path_bandwidth'):
                if isinstance(te.get(k), float) and te[k].is_integer():
                    te[k] = int(te[k])
    return reqs


def synchronization(sid, ids):
    return {'synchronization-id': str(sid), 'svec': {'relaxable': False, 'disjointness': 'node link',
                                                      'request-id-number': [str(i) for i in ids]}}


class SiteModel:
    """Independent ROADM-level view of a designed network: sites, directed links (OMS) with their element lists and
    total fibre length; built from the graph edges only."""

    def __init__(self, network):
        self.network = network
        self.trx_of = {}        # roadm uid -> trx uid
        self.roadm_of = {}      # trx uid -> roadm uid
        self.links = {}         # (roadm a, roadm b) -> list of (element uid list, fibre metres)
        self.element_link = {}  # line element uid -> (a, b, k)
        self.nodes = {n.uid: n for n in network.nodes()}
        for n in network.nodes():
            if isinstance(n, Transceiver):
                for s in network.successors(n):
                    if isinstance(s, Roadm):
                        self.trx_of[s.uid] = n.uid
                        self.roadm_of[n.uid] = s.uid
        for n in network.nodes():
            if not isinstance(n, Roadm):
                continue
            for first in network.successors(n):
                if isinstance(first, Transceiver):
                    continue
                els, cur, length = [], first, 0.0
                ok = True
                while not isinstance(cur, (Roadm, Transceiver)):
                    els.append(cur.uid)
                    if isinstance(cur, Fiber):
                        length += cur.params.length
                    nxt = list(network.successors(cur))
                    if len(nxt) != 1:
                        ok = False
                        break
                    cur = nxt[0]
                if ok and isinstance(cur, Roadm):
                    k = len(self.links.setdefault((n.uid, cur.uid), []))
                    self.links[(n.uid, cur.uid)].append((els, length))
                    for u in els:
                        self.element_link[u] = (n.uid, cur.uid, k)

    def sites(self):
        return sorted({a for a, _ in self.links} | {b for _, b in self.links} | set(self.trx_of))

    def neighbours(self, a):
        return sorted(b for (x, b) in self.links if x == a)

    def simple_site_paths(self, a, z, limit=20000):
        """All simple ROADM-level paths from a to z (lists of ROADM uids)."""
        out, stack = [], [(a, [a])]
        while stack and len(out) < limit:
            cur, path = stack.pop()
            if cur == z:
                out.append(path)
                continue
            for nb in self.neighbours(cur):
                if nb not in path:
                    stack.append((nb, path + [nb]))
        return out

    def expand(self, site_path):
        """Site path -> list of (element uid path, fibre metres) alternatives (parallel links multiply)."""
        alts = [([site_path[0]], 0.0)]
        for a, b in zip(site_path[:-1], site_path[1:]):
            new = []
            for els, length in self.links[(a, b)]:
                for p, l0 in alts:
                    new.append((p + els + [b], l0 + length))
            alts = new
        return alts

    def path_sites(self, uid_path):
        return [u for u in uid_path if isinstance(self.nodes.get(u), Roadm)]

    def path_links(self, uid_path):
        s = self.path_sites(uid_path)
        return list(zip(s[:-1], s[1:]))

    def fibre_length(self, uid_path):
        return sum(self.nodes[u].params.length for u in uid_path if isinstance(self.nodes.get(u), Fiber))


def in_order(includes, uid_path):
    """Include constraint: every listed element is crossed, in the listed order."""
    j = 0
    for u in includes:
        try:
            k = uid_path.index(u, j)
        except ValueError:
            return False
        j = k
    return True
