"""Workload helpers shared by the propagation-level properties: build a designed network from a seed and
propagate requests over its paths with the element monitors attached."""
from copy import deepcopy

from gnpy.core.equipment import trx_mode_params
from gnpy.core.utils import dbm2watt, automatic_nch
from gnpy.core.elements import Transceiver, Roadm
from gnpy.topology.request import PathRequest, compute_constrained_path, propagate

from vf import attach
from vf.gen import common as G


def build(rng, *, eqpt_name='eqpt_config.json', vary=True, topo_kw=None, span_kw=None, eqpt_hook=None,
          topo_hook=None, sim=None):
    ej = G.eqpt_json(eqpt_name)
    edesc = G.vary_span_si(rng, ej, **(span_kw or {})) if vary else {}
    if eqpt_hook:
        eqpt_hook(rng, ej)
    equipment = G.make_equipment(ej)
    tj, tdesc = G.gen_topology(rng, **(topo_kw or {}))
    if topo_hook:
        topo_hook(rng, tj, ej)
    network = G.make_network(tj, equipment)
    G.reset_sim_params(sim)
    G.design(equipment, network)
    return {'ej': ej, 'tj': tj, 'equipment': equipment, 'network': network, 'edesc': edesc, 'tdesc': tdesc}


def make_request(equipment, source, destination, *, nodes_list=None, loose_list=None, initial_spectrum=None,
                 **over):
    si = equipment['SI']['default']
    params = {
        'request_id': over.pop('request_id', 'vf'), 'trx_type': '', 'trx_mode': '', 'source': source,
        'destination': destination, 'bidir': False,
        'nodes_list': list(nodes_list) if nodes_list else [destination],
        'loose_list': list(loose_list) if loose_list else ['STRICT'],
        'format': '', 'path_bandwidth': 0, 'effective_freq_slot': None,
        'nb_channel': automatic_nch(si.f_min, si.f_max, si.spacing),
        'power': dbm2watt(si.power_dbm), 'tx_power': dbm2watt(si.power_dbm)}
    if si.tx_power_dbm is not None:
        params['tx_power'] = dbm2watt(si.tx_power_dbm)
    params.update(trx_mode_params(equipment))
    params.update(over)
    req = PathRequest(**params)
    req.initial_spectrum = initial_spectrum
    return req


def node(network, uid):
    return next(n for n in network.nodes() if n.uid == uid)


def route(network, req):
    return compute_constrained_path(network, req)


class NoChannelInBand(Exception):
    """The documented outcome when no launched channel lies inside the amplifiers' common band."""


def propagate_copy(path, req, equipment, record_ops=False):
    """Propagates on a deep copy of the path (as the path-request flow does); returns (copy, si, events, ops)."""
    p = deepcopy(path)
    attach.install()
    attach.reset(record_ops=record_ops)
    try:
        si = propagate(p, req, equipment)
    except ValueError as e:
        if 'Defined propagation band does not match amplifiers band' in str(e):
            raise NoChannelInBand(str(e)) from e
        raise
    finally:
        attach.RECORD_OPS[0] = False
    return p, si, list(attach.EVENTS), list(attach.OPS)


def trx_uids(network):
    return sorted(n.uid for n in network.nodes() if isinstance(n, Transceiver))
