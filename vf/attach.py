"""Attaches monitors to the real gnpy classes from the harness (no repository edits).

* class-level ``__call__`` wrappers on every element type record one event per element crossing, with a snapshot
  of the SpectralInformation before and after and the call depth (per-band amplifiers nested in a multiband one);
* wrappers on the SpectralInformation operations record one event per operation (used by C01/C02);
* ``record_calls`` uses sys.monitoring local events to record arguments/returns of functions that other modules
  imported by name (re-binding would miss those callers).
"""
import sys
import numpy as np

from gnpy.core import elements, info

EVENTS = []       # element crossings
OPS = []          # spectral-information operations
_depth = [0]
_installed = [False]
RECORD_OPS = [False]
COUNTS = {}


class Snap:
    """Immutable copy of everything a SpectralInformation carries."""
    __slots__ = ('frequency', 'pch', 'sr', 'ar', 'nr', 'cd', 'pmd', 'pdl', 'latency', 'baud_rate', 'slot_width',
                 'label', 'delta_pdb', 'tx_osnr', 'tx_power', 'roll_off', 'n')

    def __init__(self, si):
        self.frequency = np.array(si._frequency, dtype=float)
        self.pch = np.array(si._pch, dtype=float)
        self.sr = np.array(si._signal_ratio, dtype=float)
        self.ar = np.array(si._ase_ratio, dtype=float)
        self.nr = np.array(si._nli_ratio, dtype=float)
        self.cd = np.array(si._chromatic_dispersion, dtype=float)
        self.pmd = np.array(si._pmd, dtype=float)
        self.pdl = np.array(si._pdl, dtype=float)
        self.latency = np.array(si._latency, dtype=float)
        self.baud_rate = np.array(si._baud_rate, dtype=float)
        self.slot_width = np.array(si._slot_width, dtype=float)
        self.label = np.array(si._label)
        self.delta_pdb = np.array(si._delta_pdb_per_channel, dtype=float)
        self.tx_osnr = np.array(si._tx_osnr, dtype=float)
        self.tx_power = np.array(si._tx_power, dtype=float)
        self.roll_off = np.array(si._roll_off, dtype=float)
        self.n = len(self.frequency)

    def lengths(self):
        return {k: len(getattr(self, k)) for k in self.__slots__ if k != 'n'}

    def identity(self):
        """Per-channel identity tuples (what must survive a path unchanged)."""
        def num(x):
            x = float(x)
            return x if x == x else 'nan'          # fixtures without transmitter data carry NaN: equal to itself here
        return [(float(f), float(b), float(s), str(l), num(tp), num(to), num(d), num(r))
                for f, b, s, l, tp, to, d, r in zip(self.frequency, self.baud_rate, self.slot_width, self.label,
                                                    self.tx_power, self.tx_osnr, self.delta_pdb, self.roll_off)]

    @property
    def gsnr(self):
        with np.errstate(all='ignore'):
            return self.sr / (self.ar + self.nr)

    @property
    def osnr(self):
        with np.errstate(all='ignore'):
            return self.sr / self.ar

    @property
    def snr_nli(self):
        with np.errstate(all='ignore'):
            return self.sr / self.nr

    def brief(self):
        return {'n': self.n, 'f': self.frequency[:6].tolist(), 'pch': self.pch[:6].tolist(),
                'sr': self.sr[:6].tolist(), 'ar': self.ar[:6].tolist(), 'nr': self.nr[:6].tolist()}


def _edfa_extra(el):
    return {k: (np.array(getattr(el, k), dtype=float) if isinstance(getattr(el, k, None), np.ndarray)
                else getattr(el, k, None))
            for k in ('effective_gain', 'nf', 'gprofile', 'pin_db', 'pout_db', 'out_voa', 'in_voa', 'tilt_target',
                      'delta_p', 'att_in')}


def _wrap_call(cls):
    orig = cls.__dict__.get('__call__')
    if orig is None or getattr(orig, '_vf', False):
        return

    def wrapper(self, spectral_info, *a, **kw):
        before = Snap(spectral_info)
        pre = _edfa_extra(self) if isinstance(self, elements.Edfa) else None
        ev = {'el': self, 'uid': self.uid, 'type': type(self).__name__, 'depth': _depth[0], 'before': before,
              'after': None, 'args': kw or a, 'pre': pre, 'exc': None, 'ops_from': len(OPS)}
        EVENTS.append(ev)
        _depth[0] += 1
        try:
            out = orig(self, spectral_info, *a, **kw)
        except BaseException as e:
            ev['exc'] = type(e).__name__
            raise
        finally:
            _depth[0] -= 1
        ev['after'] = Snap(out)
        ev['ops_to'] = len(OPS)
        if isinstance(self, elements.Edfa):
            ev['post'] = _edfa_extra(self)
        return out
    wrapper._vf = True
    wrapper._orig = orig
    cls.__call__ = wrapper


def _wrap_op(name):
    orig = getattr(info.SpectralInformation, name)
    if getattr(orig, '_vf', False):
        return

    def wrapper(self, arg):
        if not RECORD_OPS[0]:
            return orig(self, arg)
        before = Snap(self)
        out = orig(self, arg)
        OPS.append({'op': name, 'arg': np.array(arg, dtype=float) if not isinstance(arg, info.SpectralInformation)
                    else Snap(arg), 'before': before, 'after': Snap(out if name == '__add__' else self)})
        return out
    wrapper._vf = True
    setattr(info.SpectralInformation, name, wrapper)


def _wrap_select():
    orig = info.select_channels
    if getattr(orig, '_vf', False):
        return

    def wrapper(spectrum, select):
        out = orig(spectrum, select)
        if RECORD_OPS[0]:
            OPS.append({'op': 'select', 'arg': np.array(select), 'before': Snap(spectrum), 'after': Snap(out)})
        return out
    wrapper._vf = True
    info.select_channels = wrapper


def install():
    if _installed[0]:
        return
    for cls in (elements.Transceiver, elements.Roadm, elements.Fused, elements.Fiber, elements.Edfa,
                elements.Multiband_amplifier):
        _wrap_call(cls)
    for name in ('add_ase', 'add_nli', 'apply_attenuation_lin', 'apply_gain_lin', '__add__'):
        _wrap_op(name)
    _wrap_select()
    _installed[0] = True


def reset(record_ops=False):
    EVENTS.clear()
    OPS.clear()
    _depth[0] = 0
    RECORD_OPS[0] = record_ops


# ---------------------------------------------------------------------------------------------------------------
# sys.monitoring based call recorder (Python 3.12): arguments and return values of selected functions


class CallRecorder:
    TOOL = 4

    def __init__(self):
        self.codes = {}
        self.snaps = {}
        self.records = []
        self.stack = []
        self.active = False

    def watch(self, func, name=None, snap=None):
        """snap: optional function applied to the argument dict at call time (objects may be mutated later)."""
        func = getattr(func, '__func__', func)
        func = getattr(func, '_orig', func)
        code = func.__code__
        self.codes[code] = name or func.__qualname__
        self.snaps[code] = snap

    def start(self):
        mon = sys.monitoring
        try:
            mon.use_tool_id(self.TOOL, 'vf')
        except ValueError:
            pass
        ev = mon.events
        mon.register_callback(self.TOOL, ev.PY_START, self._start)
        mon.register_callback(self.TOOL, ev.PY_RETURN, self._ret)
        mon.register_callback(self.TOOL, ev.PY_UNWIND, self._unwind)
        for code in self.codes:
            mon.set_local_events(self.TOOL, code, ev.PY_START | ev.PY_RETURN)
        mon.set_events(self.TOOL, 0)
        self.active = True

    def stop(self):
        mon = sys.monitoring
        for code in self.codes:
            mon.set_local_events(self.TOOL, code, 0)
        try:
            mon.free_tool_id(self.TOOL)
        except Exception:
            pass
        self.active = False

    def _start(self, code, offset):
        if code not in self.codes:
            return sys.monitoring.DISABLE
        frame = sys._getframe(1)
        args = {k: frame.f_locals.get(k) for k in code.co_varnames[:code.co_argcount + code.co_kwonlyargcount]}
        if self.snaps.get(code):
            args = self.snaps[code](args)
        rec = {'name': self.codes[code], 'args': args, 'ret': None, 'done': False}
        self.records.append(rec)
        self.stack.append(rec)

    def _ret(self, code, offset, retval):
        if code not in self.codes:
            return sys.monitoring.DISABLE
        for rec in reversed(self.stack):
            if rec['name'] == self.codes[code] and not rec['done']:
                rec['ret'] = retval
                rec['done'] = True
                self.stack.remove(rec)
                break

    def _unwind(self, code, offset, exc):
        pass

    def clear(self):
        self.records.clear()
        self.stack.clear()
