"""Realistic property-breaking mutations used to validate that the monitors fire (never applied to /repo)."""

MUTATIONS = [
    {'id': 'c01-add-ase-no-nli-rescale', 'props': ['C01'], 'tests': 'tests/test_info.py tests/test_propagation.py',
     'desc': 'add_ase forgets to rescale the NLI share',
     'edits': [('gnpy/core/info.py', "        self._nli_ratio *= self.pch / pch\n", "")]},
    {'id': 'c01-add-nli-no-ase-rescale', 'props': ['C01'], 'tests': 'tests/test_info.py',
     'desc': 'add_nli forgets to scale the ASE share',
     'edits': [('gnpy/core/info.py', "        self._ase_ratio *= (1 - nli_ratio)\n", "")]},
    {'id': 'c01-mux-drops-ase', 'props': ['C01'], 'tests': 'tests/test_info.py',
     'desc': '__add__ takes the ASE share of the left operand for the NLI share',
     'edits': [('gnpy/core/info.py', "nli_ratio=append(self._nli_ratio, other._nli_ratio),",
                "nli_ratio=append(self._nli_ratio, other._ase_ratio),")]},
    {'id': 'c02-fiber-nli-sign', 'props': ['C02'], 'tests': 'tests/test_info.py',
     'desc': 'fibre subtracts NLI instead of adding it for spans shorter than 40 km',
     'edits': [('gnpy/core/elements.py', """        nli = NliSolver.compute_nli(spectral_info, stimulated_raman_scattering, self)
        spectral_info.add_nli(nli)

        # chromatic dispersion and pmd variations
        spectral_info.chromatic_dispersion += self.chromatic_dispersion(spectral_info.frequency)
        spectral_info.pmd = sqrt(spectral_info.pmd ** 2 + self.pmd ** 2)

        # latency
        spectral_info.latency += self.params.latency

        # apply the attenuation due to the fiber losses
        attenuation_fiber = stimulated_raman_scattering.loss_profile[:, -1]""",
                """        nli = NliSolver.compute_nli(spectral_info, stimulated_raman_scattering, self)
        spectral_info.add_nli(nli if self.params.length > 40e3 else -nli)

        # chromatic dispersion and pmd variations
        spectral_info.chromatic_dispersion += self.chromatic_dispersion(spectral_info.frequency)
        spectral_info.pmd = sqrt(spectral_info.pmd ** 2 + self.pmd ** 2)

        # latency
        spectral_info.latency += self.params.latency

        # apply the attenuation due to the fiber losses
        attenuation_fiber = stimulated_raman_scattering.loss_profile[:, -1]""")]},
    {'id': 'c02-roadm-equalises-one-share', 'props': ['C02', 'C01'], 'tests': 'tests/test_equalization.py',
     'desc': 'ROADM equalisation attenuates the NLI share once more',
     'edits': [('gnpy/core/elements.py', """        spectral_info.apply_attenuation_db(delta_power)

        # Update the PMD information""", """        spectral_info.apply_attenuation_db(delta_power)
        spectral_info._nli_ratio = spectral_info._nli_ratio / db2lin(delta_power)

        # Update the PMD information""")]},
    {'id': 'c02-edfa-ase-sign-high-gain', 'props': ['C02'], 'tests': 'tests/test_amplifier.py',
     'desc': 'amplifier subtracts its ASE when the effective gain exceeds 24 dB',
     'edits': [('gnpy/core/elements.py', """        ase = self.noise_profile(spectral_info)
        spectral_info.add_ase(ase)
""", """        ase = self.noise_profile(spectral_info)
        spectral_info.add_ase(ase if self.effective_gain <= 24 else -ase * 0.5)
""")]},
    {'id': 'c03-psi-pump-baud', 'props': ['C03'], 'tests': 'tests/test_science_utils.py',
     'desc': '_psi uses the pump baud rate where the cut baud rate belongs (cancels for uniform combs)',
     'edits': [('gnpy/core/science_utils.py', """        psi = (arcsinh(pi ** 2 * asymptotic_length * abs(beta2) * cut_baud_rate * right_extreme) -
               arcsinh(pi ** 2 * asymptotic_length * abs(beta2) * cut_baud_rate * left_extreme)) / 2""",
                """        psi = (arcsinh(pi ** 2 * asymptotic_length * abs(beta2) * pump_baud_rate * right_extreme) -
               arcsinh(pi ** 2 * asymptotic_length * abs(beta2) * pump_baud_rate * left_extreme)) / 2""")]},
    {'id': 'c03-beta2-cut-only', 'props': ['C03'], 'tests': 'tests/test_science_utils.py',
     'desc': '_psi uses the cut channel beta2 instead of the mean (visible only with dispersion slope)',
     'edits': [('gnpy/core/science_utils.py', "        beta2 = (cut_beta + pump_beta) / 2\n        right_extreme",
                "        beta2 = cut_beta\n        right_extreme")]},
    {'id': 'c03-gamma-of-pump', 'props': ['C03'], 'tests': 'tests/test_science_utils.py',
     'desc': 'analytic GN uses the pump channel gamma instead of the cut channel gamma',
     'edits': [('gnpy/core/science_utils.py', """        beta2 = fiber.beta2(frequency)
        gamma = outer(fiber.gamma(frequency), ones(nch))
        length = fiber.params.length""", """        beta2 = fiber.beta2(frequency)
        gamma = outer(ones(nch), fiber.gamma(frequency))
        length = fiber.params.length""")]},
    {'id': 'c03-xpm-weight', 'props': ['C03'], 'tests': 'tests/test_info.py',
     'desc': 'XPM weight 16/27 instead of 32/27',
     'edits': [('gnpy/core/science_utils.py', "    XPM_WEIGHT = 2 * (16.0 / 27.0)", "    XPM_WEIGHT = (16.0 / 27.0)")]},
    {'id': 'c04-clamp-per-channel', 'props': ['C04'], 'tests': 'tests/test_amplifier.py',
     'desc': 'saturation clamp uses the strongest channel instead of the total input power',
     'edits': [('gnpy/core/elements.py', "            self.params.p_max - self.pin_db\n",
                "            self.params.p_max - watt2dbm(max(pch_in))\n")]},
    {'id': 'c04-ase-slot-width', 'props': ['C04'], 'tests': 'tests/test_amplifier.py',
     'desc': 'ASE integrated over the slot width instead of the baud rate',
     'edits': [('gnpy/core/elements.py', "ase = h * spectral_info.baud_rate * spectral_info.frequency * db2lin(self.nf)",
                "ase = h * spectral_info.slot_width * spectral_info.frequency * db2lin(self.nf)")]},
    {'id': 'c04-no-pad-below-gain-min', 'props': ['C04'], 'tests': 'tests/test_amplifier.py',
     'desc': 'NF no longer grows dB-for-dB below minimum gain',
     'edits': [('gnpy/core/elements.py', "        return nf_avg + pad, pad", "        return nf_avg, pad")]},
    {'id': 'c04-dual-stage-friis', 'props': ['C04'], 'tests': 'tests/test_amplifier.py',
     'desc': 'dual stage: second stage NF not divided by the first stage gain when g1 > 24 dB',
     'edits': [('gnpy/core/elements.py', "            nf_avg = lin2db(db2lin(nf1_avg) + db2lin(nf2_avg - g1))",
                "            nf_avg = lin2db(db2lin(nf1_avg) + db2lin(nf2_avg - min(g1, 24)))")]},
    {'id': 'c04-band-upper-edge', 'props': ['C04', 'C07'], 'tests': 'tests/test_info.py tests/test_amplifier.py',
     'desc': 'band filter excludes a channel ending exactly on the upper band edge',
     'edits': [('gnpy/core/info.py', "(frequency + slot_width / 2 <= band['f_max'])", "(frequency + slot_width / 2 < band['f_max'])")]},
    {'id': 'c04-tilt-normalisation', 'props': ['C04'], 'tests': 'tests/test_amplifier.py',
     'desc': 'gain profile not re-normalised to the effective gain under tilt (first estimate returned)',
     'edits': [('gnpy/core/elements.py', "        return g1st - voa + array(self.interpol_dgt) * dgts3",
                "        return g1st - voa + array(self.interpol_dgt) * dgts1")]},
    {'id': 'c05-lumped-twice', 'props': ['C05'], 'tests': 'tests/test_propagation.py',
     'desc': 'lumped losses applied twice in the no-Raman attenuation profile',
     'edits': [('gnpy/core/science_utils.py', "        lumped_loss_acc = cumprod(lumped_losses)\n",
                "        lumped_loss_acc = cumprod(lumped_losses ** 2)\n")]},
    {'id': 'c05-edfa-pmd-linear', 'props': ['C05'], 'tests': 'tests/test_propagation.py',
     'desc': 'amplifier PMD added linearly instead of in quadrature',
     'edits': [('gnpy/core/elements.py', "        spectral_info.pmd = sqrt(spectral_info.pmd ** 2 + self.params.pmd ** 2)",
                "        spectral_info.pmd = spectral_info.pmd + self.params.pmd")]},
    {'id': 'c05-short-fibre-no-con-out', 'props': ['C05'], 'tests': 'tests/test_propagation.py',
     'desc': 'output connector loss skipped for fibres shorter than 2 km',
     'edits': [('gnpy/core/elements.py', """        attenuation_fiber = stimulated_raman_scattering.loss_profile[:, -1]
        spectral_info.apply_attenuation_lin(attenuation_fiber)

        # apply the attenuation due to the output connector loss
        attenuation_out_db = self.params.con_out""", """        attenuation_fiber = stimulated_raman_scattering.loss_profile[:, -1]
        spectral_info.apply_attenuation_lin(attenuation_fiber)

        # apply the attenuation due to the output connector loss
        attenuation_out_db = self.params.con_out if self.params.length > 2000 else 0""")]},
    {'id': 'c05-latency-index', 'props': ['C05'], 'tests': 'tests/test_propagation.py',
     'desc': 'latency computed with the vacuum speed of light',
     'edits': [('gnpy/core/parameters.py', "            self._latency = self._length / (c / self._n1)  # s",
                "            self._latency = self._length / c  # s")]},
    {'id': 'c05-perturbative-third-order', 'props': ['C05'], 'tests': 'tests/test_science_utils.py',
     'desc': 'third-order perturbative term loses its 1/2 factor',
     'edits': [('gnpy/core/science_utils.py', "z_integrand = expz * (gamma2 + 1/2 * gamma1**2)",
                "z_integrand = expz * (gamma2 + gamma1**2)")]},
    {'id': 'c05-numerical-lumped-shift', 'props': ['C05'], 'tests': 'tests/test_science_utils.py',
     'desc': 'numerical Raman solver forgets the lumped loss located on its last step',
     'edits': [('gnpy/core/science_utils.py', """                power[:, i] = (power[:, i - 1] * (1 + (- alpha + sum(cr * power[:, i - 1], 1)) * dz[i - 1]) *
                               lumped_losses[i - 1])""", """                power[:, i] = (power[:, i - 1] * (1 + (- alpha + sum(cr * power[:, i - 1], 1)) * dz[i - 1]) *
                               (lumped_losses[i - 1] if dz[i - 1] > 50 else 1))""")]},
    {'id': 'c05-roadm-pdl-linear', 'props': ['C05'], 'tests': 'tests/test_roadm_restrictions.py',
     'desc': 'ROADM PDL added linearly',
     'edits': [('gnpy/core/elements.py', "        spectral_info.pdl = sqrt(spectral_info.pdl ** 2 + pdl_impairment ** 2)",
                "        spectral_info.pdl = spectral_info.pdl + pdl_impairment")]},
    {'id': 'c06-degree-psd-ref-baud', 'props': ['C06'], 'tests': 'tests/test_equalization.py',
     'desc': 'per-degree PSD target computed with the reference carrier baud rate instead of each channel baud rate',
     'edits': [('gnpy/core/elements.py', "            return psd2powerdbm(self.per_degree_pch_psd[degree], spectral_info.baud_rate)",
                "            return psd2powerdbm(self.per_degree_pch_psd[degree], self.ref_carrier.baud_rate)")]},
    {'id': 'c06-correction-before-maxloss', 'props': ['C06'], 'tests': 'tests/test_equalization.py tests/test_roadm_restrictions.py',
     'desc': 'below-target correction computed on the power before the ROADM path loss',
     'edits': [('gnpy/core/elements.py', "        correction = calculate_absolute_min_or_zero(net_input_pch_dbm - target_power_per_channel)",
                "        correction = calculate_absolute_min_or_zero(input_pch_dbm - target_power_per_channel)")]},
    {'id': 'c06-degree-psw-uses-baud', 'props': ['C06'], 'tests': 'tests/test_equalization.py',
     'desc': 'per-degree PSW target multiplied by the baud rate instead of the slot width',
     'edits': [('gnpy/core/elements.py', "            return psd2powerdbm(self.per_degree_pch_psw[degree], spectral_info.slot_width)",
                "            return psd2powerdbm(self.per_degree_pch_psw[degree], spectral_info.baud_rate)")]},
    {'id': 'c06-topology-policy-keeps-default', 'props': ['C06'], 'tests': 'tests/test_equalization.py',
     'desc': 'a topology-level policy no longer removes the library default of another type when it is PSW',
     'edits': [('gnpy/tools/json_io.py', "        return {k: v for k, v in extra_params.items() if k not in equalization_types}",
                "        return {k: v for k, v in extra_params.items() if k not in equalization_types[:2]}")]},
    {'id': 'c06-offset-sign', 'props': ['C06'], 'tests': 'tests/test_equalization.py',
     'desc': 'per-channel offset ignored when negative',
     'edits': [('gnpy/core/elements.py', "        target_power_per_channel = per_degree_pch + spectral_info.delta_pdb_per_channel",
                "        target_power_per_channel = per_degree_pch + abs(spectral_info.delta_pdb_per_channel)")]},
    {'id': 'c07-multiband-drops-single', 'props': ['C07'], 'tests': 'tests/test_amplifier.py tests/test_info.py',
     'desc': 'multiband amplifier drops a band that carries one channel only',
     'edits': [('gnpy/core/elements.py', "            if si:\n                si = amp(si)", "            if si and si.number_of_channels > 1:\n                si = amp(si)")]},
    {'id': 'c07-filter-first-band-only', 'props': ['C07'], 'tests': 'tests/test_propagation.py',
     'desc': 'pre-propagation filter keeps the first common band only',
     'edits': [('gnpy/topology/request.py', "    for band in common_range:\n        temp = demuxed_spectral_information(si, band)",
                "    for band in common_range[:1]:\n        temp = demuxed_spectral_information(si, band)")]},
    {'id': 'c07-mux-tx-power', 'props': ['C07'], 'tests': 'tests/test_info.py',
     'desc': 'band merge takes the transmit power of the right-hand spectrum from its tx_osnr',
     'edits': [('gnpy/core/info.py', "tx_power=append(self.tx_power, other.tx_power),", "tx_power=append(self.tx_power, other.tx_osnr),")]},
    {'id': 'c07-label-not-sorted', 'props': ['C07'], 'tests': 'tests/test_info.py',
     'desc': 'labels are not re-ordered with the frequencies at construction',
     'edits': [('gnpy/core/info.py', "        self._label = label[indices]", "        self._label = label")]},
    {'id': 'c07-touching-overlap', 'props': ['C07'], 'tests': 'tests/test_info.py',
     'desc': 'exactly touching slots are reported as overlapping',
     'edits': [('gnpy/core/info.py', "self._slot_width[:-1] / 2 > self._frequency[1:]", "self._slot_width[:-1] / 2 >= self._frequency[1:]")]},
    {'id': 'c08-inline-skip-short-next', 'props': ['C08'], 'tests': 'tests/test_network_functions.py',
     'desc': 'no inline amplifier inserted in front of a fibre shorter than 1 km',
     'edits': [('gnpy/core/network.py', "    if isinstance(next_node, elements.Fiber) or isinstance(next_node, elements.RamanFiber):\n        # no amplification for fused spans or TRX",
                "    if (isinstance(next_node, elements.Fiber) or isinstance(next_node, elements.RamanFiber)) \\\n            and next_node.params.length > 1000:\n        # no amplification for fused spans or TRX")]},
    {'id': 'c08-split-rounds-km', 'props': ['C08'], 'tests': 'tests/test_network_functions.py tests/test_parser.py',
     'desc': 'split spans get a length rounded to the kilometre',
     'edits': [('gnpy/core/network.py', "    fiber.params.length = new_length\n", "    fiber.params.length = round(new_length, -3)\n")]},
    {'id': 'c08-padding-off-by-one', 'props': ['C08'], 'tests': 'tests/test_network_functions.py',
     'desc': 'padding only added when the span is more than 1 dB short',
     'edits': [('gnpy/core/network.py', "        if this_span_loss < padding:\n", "        if this_span_loss < padding - 1:\n")]},
    {'id': 'c08-no-preamp-after-raman', 'props': ['C08'], 'tests': 'tests/test_network_functions.py',
     'desc': 'no ROADM preamp inserted after a Raman fibre',
     'edits': [('gnpy/core/network.py', """    prev_nodes = [n for n in network.predecessors(roadm)
                  if not isinstance(n, (elements.Transceiver, elements.Fused, elements.Edfa,
                                        elements.Multiband_amplifier))]""", """    prev_nodes = [n for n in network.predecessors(roadm)
                  if not isinstance(n, (elements.Transceiver, elements.Fused, elements.Edfa,
                                        elements.Multiband_amplifier, elements.RamanFiber))]""")]},
    {'id': 'c08-gain-mode-voa-none', 'props': ['C08'], 'tests': 'tests/test_gain_mode.py',
     'desc': 'output VOA left unset in gain mode',
     'edits': [('gnpy/core/network.py', "            voa = 0  # no output voa optimization in gain mode\n        amp.out_voa = voa",
                "            voa = None  # no output voa optimization in gain mode\n        amp.out_voa = voa")]},
    {'id': 'c09-offset-floor', 'props': ['C09'], 'tests': 'tests/test_network_functions.py tests/test_parser.py',
     'desc': 'power rule rounds the offset downwards instead of to the nearest step',
     'edits': [('gnpy/core/network.py', """        dp = round2float((node_loss - equipment['Span']['default'].span_loss_ref)
                         * equipment['Span']['default'].power_slope, dp_range[2])""",
                """        dp = round2float((node_loss - equipment['Span']['default'].span_loss_ref)
                         * equipment['Span']['default'].power_slope - 0.45 * dp_range[2], dp_range[2])""")]},
    {'id': 'c09-voa-sign', 'props': ['C09'], 'tests': 'tests/test_network_functions.py tests/test_parser.py',
     'desc': 'user-set output VOA subtracted from the offset instead of added',
     'edits': [('gnpy/core/network.py', "        dp = target_power(network, next_node, equipment, deviation_db) + voa",
                "        dp = target_power(network, next_node, equipment, deviation_db) - voa")]},
    {'id': 'c09-saturation-per-channel', 'props': ['C09'], 'tests': 'tests/test_network_functions.py tests/test_parser.py',
     'desc': 'p_max check of a user-chosen model uses the per-channel reference power instead of the total',
     'edits': [('gnpy/core/network.py', "            power_reduction = min(0, p_max - (pref_total_db + dp))",
                "            power_reduction = min(0, p_max - (pref_ch_db + dp))")]},
    {'id': 'c09-prev-voa-sign', 'props': ['C09'], 'tests': 'tests/test_network_functions.py tests/test_parser.py',
     'desc': 'previous amplifier output VOA subtracted in the gain budget',
     'edits': [('gnpy/core/network.py', "        gain_target = node_loss + deviation_db + dp - prev_dp + prev_voa + in_voa",
                "        gain_target = node_loss + deviation_db + dp - prev_dp - prev_voa + in_voa")]},
    {'id': 'c09-eol-not-in-budget', 'props': ['C09'], 'tests': 'tests/test_network_functions.py',
     'desc': 'span loss cache taken before the EOL margin is added (EOL missing from gains when EOL != 0)',
     'edits': [('gnpy/core/network.py', """    add_connector_loss(network, fibers, default_span_data.con_in, default_span_data.con_out, default_span_data.EOL)
    # don't group split fiber and add amp in the same loop
    # =>for code clarity (at the expense of speed):
    add_fiber_padding(network, fibers, default_span_data.padding, equipment)""",
                """    add_connector_loss(network, fibers, default_span_data.con_in, default_span_data.con_out, 0)
    # don't group split fiber and add amp in the same loop
    # =>for code clarity (at the expense of speed):
    add_fiber_padding(network, fibers, default_span_data.padding, equipment)
    for fiber in fibers:
        if not isinstance(get_next_node(fiber, network), elements.Fused):
            fiber.params.con_out += default_span_data.EOL""")]},
    {'id': 'c10-select-noisiest', 'props': ['C10'], 'tests': 'tests/test_amplifier.py',
     'desc': 'selection keeps the noisiest acceptable amplifier when more than three are acceptable',
     'edits': [('gnpy/core/network.py', "    selected_edfa = min(acceptable_power_list, key=attrgetter('nf'))  # filter on NF",
                "    selected_edfa = (min if len(acceptable_power_list) <= 3 else max)(acceptable_power_list, key=attrgetter('nf'))")]},
    {'id': 'c10-roadm-restriction-first', 'props': ['C10'], 'tests': 'tests/test_roadm_restrictions.py',
     'desc': 'ROADM booster restriction takes precedence over the amplifier own variety list',
     'edits': [('gnpy/core/network.py', """    if node.variety_list and isinstance(node.variety_list, list):
        restrictions = node.variety_list
    elif isinstance(prev_node, elements.Roadm) and prev_node.restrictions['booster_variety_list']:
        # implementation of restrictions on roadm boosters
        restrictions = prev_node.restrictions['booster_variety_list']""", """    if isinstance(prev_node, elements.Roadm) and prev_node.restrictions['booster_variety_list']:
        # implementation of restrictions on roadm boosters
        restrictions = prev_node.restrictions['booster_variety_list']
    elif node.variety_list and isinstance(node.variety_list, list):
        restrictions = node.variety_list""")]},
    {'id': 'c10-band-lower-edge-only', 'props': ['C10'], 'tests': 'tests/test_network_functions.py',
     'desc': 'band coverage only tests the lower edge of the design band',
     'edits': [('gnpy/core/network.py', "                     if (a.type_def != 'multi_band' and a.f_min <= band['f_min'] and a.f_max >= band['f_max'])",
                "                     if (a.type_def != 'multi_band' and a.f_min <= band['f_min'])")]},
    {'id': 'c10-min-gain-allowance', 'props': ['C10'], 'tests': 'tests/test_amplifier.py',
     'desc': 'minimum gain allowance 5 dB instead of 3 dB',
     'edits': [('gnpy/core/network.py', "        gain_min=gain_target + 3 - edfa.gain_min,", "        gain_min=gain_target + 5 - edfa.gain_min,")]},
    {'id': 'c10-raman-always-after-fibre', 'props': ['C10'], 'tests': 'tests/test_amplifier.py',
     'desc': 'Raman models allowed after any fibre regardless of its loss coefficient',
     'edits': [('gnpy/core/network.py', "        raman_allowed = (prev_node.params.loss_coef < max_fiber_lineic_loss_for_raman).all()",
                "        raman_allowed = True")]},
    {'id': 'c10-power-ignores-pmax', 'props': ['C10'], 'tests': 'tests/test_amplifier.py',
     'desc': 'capability of non-Raman models ignores p_max when the required gain is below 12 dB',
     'edits': [('gnpy/core/network.py', """        power=min(pin + edfa.gain_flatmax + target_extended_gain, edfa.p_max) - power_target,
        gain_min=gain_target + 3 - edfa.gain_min,""", """        power=min(pin + edfa.gain_flatmax + target_extended_gain, edfa.p_max if gain_target > 12 else 99) - power_target,
        gain_min=gain_target + 3 - edfa.gain_min,""")]},
    {'id': 'c11-loose-fallback-hops', 'props': ['C11'], 'tests': 'tests/test_path_computation_functions.py tests/test_disjunction.py',
     'desc': 'fallback path for unsatisfiable LOOSE constraints minimises the hop count instead of the fibre length',
     'edits': [('gnpy/topology/request.py', "            total_path = dijkstra_path(network, source, destination, weight='weight')",
                "            total_path = dijkstra_path(network, source, destination, weight=None)")]},
    {'id': 'c11-ispart-ignores-order', 'props': ['C11'], 'tests': 'tests/test_path_computation_functions.py tests/test_disjunction.py',
     'desc': 'include check only tests membership, not order',
     'edits': [('gnpy/topology/request.py', """            if pthb.index(elem) >= j:
                j = pthb.index(elem)
            else:
                return False""", """            j = pthb.index(elem)""")]},
    {'id': 'c11-strict-relaxed', 'props': ['C11'], 'tests': 'tests/test_path_computation_functions.py tests/test_disjunction.py',
     'desc': 'a STRICT entry is only honoured when it is the first entry of the list',
     'edits': [('gnpy/topology/request.py', "        if 'STRICT' not in req.loose_list[:-1]:", "        if 'STRICT' not in req.loose_list[:1]:")]},
    {'id': 'c11-edge-weight-inline', 'props': ['C11'], 'tests': 'tests/test_network_functions.py tests/test_parser.py',
     'desc': 'the edge from a fibre to its auto-inserted inline amplifier carries the nominal weight instead of the length',
     'edits': [('gnpy/core/network.py', "        network.add_edge(fiber, amp, weight=fiber.params.length)",
                "        network.add_edge(fiber, amp, weight=0.01)")]},
    {'id': 'c05-revert-lumped-same-position', 'props': ['C05'], 'tests': 'tests/test_science_utils.py tests/test_propagation.py',
     'desc': 'revert of fix ecb71ad7: of several lumped losses at one position only the first is applied',
     'edits': [('gnpy/core/science_utils.py', """        multiply.at(total_lumped_losses, inverse, lumped_losses)
""", """        total_lumped_losses = lumped_losses[unique(concatenate((z_lumped_losses, z)), return_index=True)[1]]
""")]},
    {'id': 'c05-revert-raman-flag-off', 'props': ['C05'], 'tests': 'tests/test_science_utils.py tests/test_propagation.py',
     'desc': 'revert of fix 9605e2f2: RamanFiber with pumps crashes when the Raman computation is off',
     'edits': [('gnpy/core/science_utils.py', """        if not sim_params.raman_params.flag:
            # Raman effects are not computed: the pumps are not in the profile and generate no noise
            return zeros(spectral_info.number_of_channels)
""", "")]},
    {'id': 'c09-revert-round2float-step', 'props': ['C09'], 'tests': 'tests/test_network_functions.py tests/test_amplifier.py',
     'desc': 'revert of fix 9b57a419: round2float rounds the step itself to one decimal (0.25 applied as 0.2)',
     'edits': [('gnpy/core/utils.py', """    step = round(step, 2)
    if step >= 0.01:
        number = round(number / step, 0)
        number = round(number * step, 2)
""", """    step = round(step, 1)
    if step >= 0.01:
        number = round(number / step, 0)
        number = round(number * step, 1)
""")]},
    {'id': 'c08-revert-fused-padding', 'props': ['C08'], 'tests': 'tests/test_network_functions.py tests/test_parser.py',
     'desc': 'revert of fix 42917bec: a span ending with a fused element is never padded',
     'edits': [('gnpy/core/network.py', """        if isinstance(next_node, elements.Fused) \\
                and any(isinstance(n, elements.Fiber) for n in next_node_generator(network, fiber)):
""", """        if isinstance(next_node, elements.Fused):
""")]},
    {'id': 'c12-revert-strict-on-short-path', 'props': ['C12'], 'tests': 'tests/test_disjunction.py',
     'desc': 'revert of fix 9f1e09f0: constraints of synchronized requests tested on the short path representation',
     'edits': [('gnpy/topology/request.py',
                "                    if not ispart(allpaths[id(pth)].req.nodes_list, [e.uid for e in allpaths[id(pth)].pth]):",
                "                    if not ispart(allpaths[id(pth)].req.nodes_list, pth):")]},
    {'id': 'c13-revert-mode-own-offset', 'props': ['C13'], 'tests': 'tests/test_propagation.py tests/test_path_computation_functions.py',
     'desc': 'partial revert of fix 066b2579: the path is propagated again only when the baud rate changes, not the offset',
     'edits': [('gnpy/topology/request.py', "            if (this_br, this_offset) != propagated_baudrate_offset:",
                "            if propagated_baudrate_offset is None or this_br != propagated_baudrate_offset[0]:")]},
    {'id': 'c08-revert-split-lumped', 'props': ['C08'], 'tests': 'tests/test_network_functions.py tests/test_parser.py',
     'desc': 'revert of fix 46db0731: every split span receives all lumped losses of the original fibre',
     'edits': [('gnpy/core/network.py', """        params['att_in'] = new_att_in[span]
        params['lumped_losses'] = new_lumped_losses[span]
""", "")]},
    {'id': 'c17-revert-raman-power-after-voa', 'props': ['C17'], 'tests': 'tests/test_network_functions.py tests/test_science_utils.py',
     'desc': 'revert of the fix: Raman gain estimated with the power before the previous amplifier\'s output VOA',
     'edits': [('gnpy/core/network.py', "input_power=pref_ch_db + dp[band_name] - voa[band_name])",
                "input_power=pref_ch_db + dp[band_name])")]},
    {'id': 'c15-revert-oms-ends-on-transceiver', 'props': ['C15'], 'tests': 'tests/test_spectrum_assignment.py',
     'desc': 'revert of fix b274f498: the OMS walk only stops on a ROADM (endless on ROADM-less lines)',
     'edits': [('gnpy/topology/spectrum_assignment.py', "                while not isinstance(nd_out, (Roadm, Transceiver)):",
                "                while not isinstance(nd_out, Roadm):")]},
    {'id': 'c15-revert-no-amplifier-range', 'props': ['C15'], 'tests': 'tests/test_spectrum_assignment.py',
     'desc': 'revert of fix 0aa41bc7: network without amplifier has no frequency range',
     'edits': [('gnpy/topology/spectrum_assignment.py', """    if not amp_bands:
        return equipment['SI']['default'].f_min, equipment['SI']['default'].f_max
""", "")]},
    {'id': 'c15-revert-band-edges-inward', 'props': ['C15'], 'tests': 'tests/test_spectrum_assignment.py',
     'desc': 'revert of fix 90ae7050: band edges truncated towards 193.1 THz (a slot outside an off-grid band usable)',
     'edits': [('gnpy/topology/spectrum_assignment.py', "        return ceil((freq - 193.1e12) / grid - 1e-6)",
                "        return int((freq - 193.1e12) / grid)"),
               ('gnpy/topology/spectrum_assignment.py', "        return floor((freq - 193.1e12) / grid + 1e-6)",
                "        return int((freq - 193.1e12) / grid)")]},
    {'id': 'c08-revert-split-att-in-once', 'props': ['C08'], 'tests': 'tests/test_network_functions.py',
     'desc': 'revert of fix 12e6199c: every sub-span of a split fibre receives the att_in of the original fibre',
     'edits': [('gnpy/core/network.py', "    new_att_in = [fiber.params.att_in] + [0 for _ in range(n_spans - 1)]",
                "    new_att_in = [fiber.params.att_in for _ in range(n_spans)]")]},
    {'id': 'c08-revert-fused-after-amp-padding', 'props': ['C08'], 'tests': 'tests/test_network_functions.py',
     'desc': 'revert of fix 740b955d: a span starting with a fused element after an amplifier is not padded',
     'edits': [('gnpy/core/network.py', "                    and isinstance(get_previous_node(first_fiber, network), (elements.Edfa, elements.Multiband_amplifier)):",
                "                    and False:")]},
    {'id': 'c14-revert-infeasible-fixed-slot-blocks', 'props': ['C14'], 'tests': 'tests/test_spectrum_assignment.py',
     'desc': 'revert of fix e32f168a: an infeasible user-fixed slot is dropped when the other slots cover the demand',
     'edits': [('gnpy/topology/spectrum_assignment.py', """                # cover the demand: these m slots could not be served)
                remaining_slots_to_serve = max(remaining_slots_to_serve, m)
""", """                # cover the demand: these m slots could not be served)
""")]},
    {'id': 'c19-revert-aggregation-compares-bidir', 'props': ['C19'], 'tests': 'tests/test_disjunction.py',
     'desc': 'revert of fix b49fe0a8: bidirectional and unidirectional twins are aggregated',
     'edits': [('gnpy/topology/request.py', "            req1.bidir == req2.bidir and \\\n", "")]},
    {'id': 'c18-revert-dispersion-list-converter', 'props': ['C18'], 'tests': 'tests/test_legacy_yang.py',
     'desc': 'revert of fix 486edebe: per-frequency dispersion is not converted to the YANG list',
     'edits': [('gnpy/tools/convert_legacy_yang.py', "        json_data = convert_dispersion_list(json_data)\n", "")]},
    {'id': 'c12-revert-aggregation-keeps-disjunctions', 'props': ['C12'], 'tests': 'tests/test_disjunction.py',
     'desc': 'revert of fix 2ab2e466: disjunctions naming the kept request are deleted when identical requests are aggregated',
     'edits': [('gnpy/topology/request.py', """                for this_d in disjlist:
                    new_reqs = []
                    for req_id in this_d.disjunctions_req:
                        if req_id in (req.request_id, temp_r_id):
                            req_id = this_r.request_id
                        if req_id not in new_reqs:
                            new_reqs.append(req_id)
                    this_d.disjunctions_req = new_reqs
""", """                for this_d in disjlist:
                    if req.request_id in this_d.disjunctions_req:
                        this_d.disjunctions_req.remove(req.request_id)
                        this_d.disjunctions_req.append(this_r.request_id)
                for this_d in disjlist:
                    if temp_r_id in this_d.disjunctions_req:
                        disjlist.remove(this_d)
"""),
               ('gnpy/topology/request.py', "    if any(d in dis2 for d in dis1):\n", "    if False:\n")]},
    {'id': 'c09-revert-voa-not-above-headroom', 'props': ['C09'], 'tests': 'tests/test_amplifier.py',
     'desc': 'revert of the fix: the automatic VOA is rounded to the nearest step, possibly above the headroom',
     'edits': [('gnpy/core/network.py', "            if voa > headroom + 1e-9:\n", "            if False:\n")]},
    {'id': 'c05-revert-float-frequencies-in-beta3', 'props': ['C05'], 'tests': 'tests/test_propagation.py',
     'desc': 'revert of the fix: beta3 computed on the frequencies as supplied (int64 overflow with a dispersion slope)',
     'edits': [('gnpy/core/elements.py', "        frequency = asarray(self.params.ref_frequency if frequency is None else frequency, dtype=float)\n        if self.params.dispersion.size > 1:\n            beta3 =",
                "        frequency = asarray(self.params.ref_frequency if frequency is None else frequency)\n        if self.params.dispersion.size > 1:\n            beta3 =")]},
    {'id': 'c02-revert-raman-ase-pump-order', 'props': ['C02'], 'tests': 'tests/test_science_utils.py',
     'desc': 'revert of the fix: spontaneous Raman ASE pairs the i-th declared pump with row i of the profile',
     'edits': [('gnpy/core/science_utils.py', "        for i, pump in enumerate(raman_pumps):\n", "        for i, pump in enumerate(fiber.raman_pumps):\n")]},
    {'id': 'c18-revert-reorder-design-bands', 'props': ['C18'], 'tests': 'tests/test_legacy_yang.py',
     'desc': 'revert of the fix: design band objects are not re-ordered (key f_min first) before validation',
     'edits': [('gnpy/tools/convert_legacy_yang.py', "        json_data = reorder_design_bands(json_data)\n", "")]},
    {'id': 'c17-revert-multiband-in-voa-export', 'props': ['C17'], 'tests': 'tests/test_multiband.py tests/test_parser.py',
     'desc': 'revert of the fix: Multiband_amplifier.to_json drops the input VOA of its per-band amplifiers',
     'edits': [('gnpy/core/elements.py', "                        'out_voa': amp.out_voa,\n                        'in_voa': amp.in_voa\n",
                "                        'out_voa': amp.out_voa\n")]},
    {'id': 'c14-revert-fixed-centre-outside-map-blocks', 'props': ['C14'], 'tests': 'tests/test_spectrum_assignment.py',
     'desc': 'revert of the fix: a user-fixed N outside the slot range of the maps raises ValueError',
     'edits': [('gnpy/topology/spectrum_assignment.py', """    if requested_n not in freq_index:
        # the requested center is outside of the spectrum of this OMS: nothing is available around it
        return 0
""", "")]},
    {'id': 'c05-revert-lumped-at-fibre-end-refused', 'props': ['C05'], 'tests': 'tests/test_science_utils.py tests/test_parser.py',
     'desc': 'revert of the fix: lumped loss positions compared in km with 1e-3 * length (a loss exactly at the end may pass)',
     'edits': [('gnpy/core/elements.py', "(z_lumped_losses * 1e3 < self.params.length)", "(z_lumped_losses < 1e-3 * self.params.length)")]},
    {'id': 'c08-revert-spliced-raman-span-not-padded', 'props': ['C08'], 'tests': 'tests/test_network_functions.py tests/test_parser.py',
     'desc': 'revert of the fix: padding skipped only when the last fibre of a spliced succession is the Raman fibre',
     'edits': [('gnpy/core/network.py', """        if isinstance(fiber, elements.RamanFiber) \\
                or any(isinstance(n, elements.RamanFiber) for n in prev_node_generator(network, fiber)):
            continue
""", """        if isinstance(fiber, elements.RamanFiber):
            continue
""")]},
    {'id': 'c11-revert-raman-fibre-printable-before-propagation', 'props': ['C11'], 'tests': 'tests/test_science_utils.py tests/test_path_computation_functions.py',
     'desc': 'revert of the fix: str() of a RamanFiber that was never propagated raises AttributeError (hides NetworkXNoPath)',
     'edits': [('gnpy/core/elements.py', """        if hasattr(self, "actual_raman_gain"):
            text += """, """        if True:
            text += """)]},
    {'id': 'c18-revert-namespace-removed-first', 'props': ['C18'], 'tests': 'tests/test_legacy_yang.py',
     'desc': 'revert of the fix (namespaced topology branch): the module name of identity values is removed after the per-degree conversion',
     'edits': [('gnpy/tools/convert_legacy_yang.py', """    elif TOPO_NMSP in json_data:
        json_data = remove_namespace_context(json_data[TOPO_NMSP], "gnpy-network-topology:")
        json_data = convert_back_degree(json_data)
""", """    elif TOPO_NMSP in json_data:
        json_data = convert_back_degree(json_data[TOPO_NMSP])
        json_data = remove_namespace_context(json_data, "gnpy-network-topology:")
""")]},
    {'id': 'c15-revert-transceiver-without-successor', 'props': ['C15'], 'tests': 'tests/test_spectrum_assignment.py',
     'desc': 'revert of the fix: build_oms_list raises StopIteration for a transceiver without successor (one-directional line)',
     'edits': [('gnpy/topology/spectrum_assignment.py', "next(network.successors(n), None), Roadm)]", "next(network.successors(n)), Roadm)]")]},
    {'id': 'c05-revert-pmd-coef-zero-is-a-value', 'props': ['C05'], 'tests': 'tests/test_parser.py tests/test_network_functions.py',
     'desc': 'revert of the fix: an element-level pmd_coef of 0 is treated as missing and replaced by the library value',
     'edits': [('gnpy/core/utils.py', "    if 'pmd_coef' in dict1 and dict1['pmd_coef'] is None \\\n", "    if 'pmd_coef' in dict1 and not dict1['pmd_coef'] \\\n")]},
    {'id': 'c20-revert-pmd-zero-cell-is-a-value', 'props': ['C20'], 'tests': 'tests/test_parser.py',
     'desc': 'revert of the fix: a PMD cell of 0 is dropped by the converter (east side)',
     'edits': [('gnpy/tools/convert.py', "    if fiber.east_pmd is not None:", "    if fiber.east_pmd:")]},
    {'id': 'c11-revert-explicit-ispart', 'props': ['C11'], 'tests': 'tests/test_path_computation_functions.py tests/test_disjunction.py',
     'desc': 'revert of fix e50d35fe: explicit route returned without checking the listed nodes are crossed in order',
     'edits': [('gnpy/topology/request.py', "    if total_path is not None and ispart(nodes_list, total_path):",
                "    if total_path is not None:")]},
    {'id': 'c11-revert-explicit-loop', 'props': ['C11'], 'tests': 'tests/test_path_computation_functions.py tests/test_disjunction.py',
     'desc': 'revert of fix 38d738b0: an explicit route crossing a ROADM twice is returned with the repetition dropped',
     'edits': [('gnpy/topology/request.py', """    if len(unique_ordered(path)) != len(path):
        return None
    return path
""", """    return unique_ordered(path)
""")]},
    {'id': 'c12-no-reverse-direction', 'props': ['C12'], 'tests': 'tests/test_disjunction.py',
     'desc': 'disjointness test forgets the opposite direction of a link',
     'edits': [('gnpy/topology/request.py', "                        all_disjoint += isdisjoint(pth1, pth) + isdisjoint(pth1_reversed, pth)",
                "                        all_disjoint += isdisjoint(pth1, pth)")]},
    {'id': 'c12-isdisjoint-skips-first-edge', 'props': ['C12'], 'tests': 'tests/test_disjunction.py',
     'desc': 'isdisjoint ignores the first link of the second path',
     'edits': [('gnpy/topology/request.py', "    edge2 = list(pairwise(pth2))\n", "    edge2 = list(pairwise(pth2))[2:]\n")]},
    {'id': 'c12-strict-filter-relaxed', 'props': ['C12'], 'tests': 'tests/test_disjunction.py',
     'desc': 'candidates violating a STRICT include are kept when nothing else is left',
     'edits': [('gnpy/topology/request.py', """        else:
            candidates[this_d.disjunction_id] = []

    # step 5 select the first combination that works""", """        else:
            pass

    # step 5 select the first combination that works""")]},
    {'id': 'c13-margin-sign', 'props': ['C13'], 'tests': 'tests/test_automaticmodefeature.py',
     'desc': 'fixed-mode verdict subtracts the system margin instead of adding it',
     'edits': [('gnpy/topology/request.py', """                if round(snr01nm_with_penalty[min_ind], 2) < pathreq.OSNR + equipment['SI']['default'].sys_margins:
                    msg = f'\\tWarning! Request {pathreq.request_id} computed path from' \\
                        + f' {pathreq.source} to {pathreq.destination} does not pass with {pathreq.tsp_mode}'""",
                """                if round(snr01nm_with_penalty[min_ind], 2) < pathreq.OSNR - equipment['SI']['default'].sys_margins:
                    msg = f'\\tWarning! Request {pathreq.request_id} computed path from' \\
                        + f' {pathreq.source} to {pathreq.destination} does not pass with {pathreq.tsp_mode}'""")]},
    {'id': 'c13-revert-auto-mode-at-threshold', 'props': ['C13'], 'tests': 'tests/test_automaticmodefeature.py',
     'desc': 'revert of fix 6c887273: automatic selection passes over a mode exactly at OSNR + margin',
     'edits': [('gnpy/topology/request.py', "                        >= this_mode['OSNR'] + equipment['SI']['default'].sys_margins:",
                "                        > this_mode['OSNR'] + equipment['SI']['default'].sys_margins:")]},
    {'id': 'c13-fixed-mode-strict-at-threshold', 'props': ['C13'], 'tests': 'tests/test_automaticmodefeature.py',
     'desc': 'fixed mode: a worst channel exactly at threshold + margin is blocked ("at least" became "more than")',
     'edits': [('gnpy/topology/request.py',
                "                snr01nm_with_penalty = total_path[-1].snr_01nm - total_path[-1].total_penalty\n                min_ind = argmin(snr01nm_with_penalty)\n                if round(snr01nm_with_penalty[min_ind], 2) < pathreq.OSNR + equipment['SI']['default'].sys_margins:",
                "                snr01nm_with_penalty = total_path[-1].snr_01nm - total_path[-1].total_penalty\n                min_ind = argmin(snr01nm_with_penalty)\n                if round(snr01nm_with_penalty[min_ind], 2) <= pathreq.OSNR + equipment['SI']['default'].sys_margins:")]},
    {'id': 'c13-mode-order-ascending', 'props': ['C13'], 'tests': 'tests/test_automaticmodefeature.py',
     'desc': 'modes of one baud rate explored by ascending bit rate',
     'edits': [('gnpy/topology/request.py',
                "key=lambda x: (x['baud_rate'], x['bit_rate'], x['equalization_offset_db']), reverse=True)",
                "key=lambda x: (x['baud_rate'], -x['bit_rate'], x['equalization_offset_db']), reverse=True)")]},
    {'id': 'c13-tx-osnr-accumulates', 'props': ['C13'], 'tests': 'tests/test_automaticmodefeature.py',
     'desc': 'transmitter OSNR of explored modes accumulates across the mode loop',
     'edits': [('gnpy/topology/request.py', "                del roadm_osnr[-1]\n", "")]},
    {'id': 'c13-gain-clamp-leaks', 'props': ['C13'], 'tests': 'tests/test_automaticmodefeature.py',
     'desc': 'amplifier gains clamped by a previous baud-rate trial are not restored (state leak in the mode search)',
     'edits': [('gnpy/topology/request.py', """                for amp, gain in zip(amps, initial_gains):
                    amp.effective_gain = gain
""", "")]},
    {'id': 'c13-penalty-below-table', 'props': ['C13'], 'tests': 'tests/test_automaticmodefeature.py',
     'desc': 'an impairment below the first point of the penalty table gives no penalty instead of blocking',
     'edits': [('gnpy/core/elements.py', "                      left=float('inf'), right=float('inf'))", "                      left=0.0, right=float('inf'))")]},
    {'id': 'c13-add-drop-osnr-double', 'props': ['C13'], 'tests': 'tests/test_roadm_restrictions.py',
     'desc': 'add and drop each contribute the full add_drop_osnr (counted twice on a path)',
     'edits': [('gnpy/core/elements.py', "roadm_global_impairment['impairment'][0]['roadm-osnr'] = self.params.add_drop_osnr + lin2db(2)",
                "roadm_global_impairment['impairment'][0]['roadm-osnr'] = self.params.add_drop_osnr")]},
    {'id': 'c14-stopn-off-by-one', 'props': ['C14'], 'tests': 'tests/test_spectrum_assignment.py',
     'desc': 'slot range end computed as N+M instead of N+M-1',
     'edits': [('gnpy/topology/spectrum_assignment.py', "    stopn = nvalue + mvalue - 1\n", "    stopn = nvalue + mvalue\n")]},
    {'id': 'c14-first-fit-second', 'props': ['C14'], 'tests': 'tests/test_spectrum_assignment.py',
     'desc': 'first fit returns the second candidate when there are several',
     'edits': [('gnpy/topology/spectrum_assignment.py', "    if policy == FIRST_FIT and candidates:\n        return candidates[0]",
                "    if policy == FIRST_FIT and candidates:\n        return candidates[min(1, len(candidates) - 1)]")]},
    {'id': 'c14-aggregate-aliases-map', 'props': ['C14'], 'tests': 'tests/test_spectrum_assignment.py',
     'desc': 'tentative assignments of a blocked request are written into the real map of a one-OMS path',
     'edits': [('gnpy/topology/spectrum_assignment.py', "    bitmap = list(spectrum.bitmap)\n", "    bitmap = spectrum.bitmap\n")]},
    {'id': 'c14-negative-remaining', 'props': ['C14'], 'tests': 'tests/test_spectrum_assignment.py',
     'desc': 'stop condition tests remaining == 0 only: an oversized fixed M followed by a free slot aborts',
     'edits': [('gnpy/topology/spectrum_assignment.py', "            if n is None or remaining_slots_to_serve <= 0:", "            if n is None or remaining_slots_to_serve == 0:")]},
    {'id': 'c14-unusable-ignored', 'props': ['C14'], 'tests': 'tests/test_spectrum_assignment.py',
     'desc': 'unusable slots of the other OMS of a path are treated as free when maps are aggregated',
     'edits': [('gnpy/topology/spectrum_assignment.py', "        if bit1 in [BitmapValue.UNUSABLE, BitmapValue.OCCUPIED] or bit2 in [BitmapValue.UNUSABLE, BitmapValue.OCCUPIED]:",
                "        if bit1 in [BitmapValue.OCCUPIED] or bit2 in [BitmapValue.UNUSABLE, BitmapValue.OCCUPIED]:")]},
    {'id': 'c14-forward-only', 'props': ['C14'], 'tests': 'tests/test_spectrum_assignment.py',
     'desc': 'spectrum only checked and booked on the forward direction',
     'edits': [('gnpy/topology/spectrum_assignment.py', "            path_oms = build_path_oms_id_list(pth + rpth)", "            path_oms = build_path_oms_id_list(pth)")]},
    {'id': 'c15-reversed-oms-first-only', 'props': ['C15'], 'tests': 'tests/test_spectrum_assignment.py',
     'desc': 'opposite OMS matched on one end point only',
     'edits': [('gnpy/topology/spectrum_assignment.py', """            if (oms.el_id_list[0] == this_o.el_id_list[-1] and
                    oms.el_id_list[-1] == this_o.el_id_list[0]):""", """            if (oms.el_id_list[0] == this_o.el_id_list[-1]):""")]},
    {'id': 'c15-band-from-first-amp', 'props': ['C15'], 'tests': 'tests/test_spectrum_assignment.py',
     'desc': 'usable band taken from the first amplifier of the OMS instead of the common range',
     'edits': [('gnpy/topology/spectrum_assignment.py', "    common_range = find_elements_common_range(oms.el_list, equipment)",
                "    common_range = find_elements_common_range(oms.el_list[:2], equipment)")]},
    {'id': 'c15-insert-right-duplicate', 'props': ['C15'], 'tests': 'tests/test_spectrum_assignment.py',
     'desc': 'right padding repeats slot index n_max',
     'edits': [('gnpy/topology/spectrum_assignment.py', "list(range(self.n_max + 1, self.n_max + 1 + len(newbitmap)))",
                "list(range(self.n_max, self.n_max + len(newbitmap)))")]},
    {'id': 'c15-map-one-slot-short', 'props': ['C15'], 'tests': 'tests/test_spectrum_assignment.py',
     'desc': 'OMS map one slot short when its last band ends below the network maximum',
     'edits': [('gnpy/topology/spectrum_assignment.py', "    n_max = frequency_to_n(f_max, grid)\n    common_range",
                "    n_max = frequency_to_n(f_max, grid) - 1\n    common_range")]},
    {'id': 'c15-insert-left-shift', 'props': ['C15'], 'tests': 'tests/test_spectrum_assignment.py',
     'desc': 'left padding shifts the slot indices by one',
     'edits': [('gnpy/topology/spectrum_assignment.py', "        temp = list(range(self.n_min - len(newbitmap), self.n_min))",
                "        temp = list(range(self.n_min - len(newbitmap) + 1, self.n_min + 1))")]},
    {'id': 'c16-no-path-copy', 'props': ['C16'], 'tests': 'tests/test_path_computation_functions.py',
     'desc': 'requests are propagated on the network elements themselves instead of a per-request copy',
     'edits': [('gnpy/topology/request.py', "        total_path = deepcopy(pathlist[i])\n", "        total_path = list(pathlist[i])\n")]},
    {'id': 'c16-no-reverse-copy', 'props': ['C16'], 'tests': 'tests/test_path_computation_functions.py',
     'desc': 'the reverse direction of a bidirectional request is propagated on the network elements themselves',
     'edits': [('gnpy/topology/request.py', "                rev_p = deepcopy(reversed_path)\n", "                rev_p = list(reversed_path)\n")]},
    {'id': 'c17-voa-export-rounded', 'props': ['C17'], 'tests': 'tests/test_parser.py',
     'desc': 'exported output VOA rounded to an integer',
     'edits': [('gnpy/core/elements.py', """                # defined per lambda on the amp band
                'out_voa': self.out_voa,""", """                # defined per lambda on the amp band
                'out_voa': round(self.out_voa) if self.out_voa is not None else None,""")]},
    {'id': 'c17-raman-estimate-no-restore', 'props': ['C17'], 'tests': 'tests/test_network_functions.py',
     'desc': 'Raman gain estimation at design time does not restore the simulation parameters',
     'edits': [('gnpy/core/network.py', "        node.estimated_gain = estimated_gain\n        SimParams.set_params(save_sim_params)\n",
                "        node.estimated_gain = estimated_gain\n")]},
    {'id': 'c17-export-drops-lumped', 'props': ['C17'], 'tests': 'tests/test_parser.py',
     'desc': 'fibre export without its lumped losses',
     'edits': [('gnpy/core/elements.py', "        if len(self.params.lumped_losses) > 0:\n", "        if len(self.params.lumped_losses) > 99:\n")]},
    {'id': 'c17-delta-p-export-rounded', 'props': ['C17'], 'tests': 'tests/test_parser.py',
     'desc': 'amplifier power offset exported with one decimal',
     'edits': [('gnpy/core/elements.py', "                'delta_p': self.delta_p,\n                'tilt_target': round(tilt_target, 5)",
                "                'delta_p': round(self.delta_p, 1) if self.delta_p is not None else None,\n                'tilt_target': round(tilt_target, 5)")]},
    {'id': 'c18-loss-coef-two-digits', 'props': ['C18'], 'tests': 'tests/test_legacy_yang.py',
     'desc': 'loss_coef converted with 2 fraction digits instead of 6',
     'edits': [('gnpy/yang/precision_dict.py', '    "loss_coef": 6,', '    "loss_coef": 2,')]},
    {'id': 'c18-degree-drops-psw', 'props': ['C18'], 'tests': 'tests/test_legacy_yang.py',
     'desc': 'per-degree power-per-slot-width targets lost when converting back to legacy',
     'edits': [('gnpy/tools/yang_convert_utils.py', """        'per_degree_psd_out_mWperGHz',
        'per_degree_psd_out_mWperSlotWidth'
    ]

    for target in power_targets:""", """        'per_degree_psd_out_mWperGHz'
    ]

    for target in power_targets:""")]},
    {'id': 'c18-trx-alias-name', 'props': ['C18'], 'tests': 'tests/test_json_io.py',
     'desc': 'transceiver aliases report a neighbouring name',
     'edits': [('gnpy/tools/json_io.py', "                        entry_without_other_name['type_variety'] = other_name\n                        equipment[key][other_name] = Transceiver(",
                "                        entry['type_variety'] = other_name\n                        equipment[key][other_name] = Transceiver(")]},
    {'id': 'c18-second-si-range', 'props': ['C18'], 'tests': 'tests/test_legacy_yang.py',
     'desc': 'power range converted back for the first SI entry only',
     'edits': [('gnpy/tools/yang_convert_utils.py', "    for si in json_data.get('SI', []):\n        if 'power_range_dict_db' in si:",
                "    for si in json_data.get('SI', [])[:1]:\n        if 'power_range_dict_db' in si:")]},
    {'id': 'c19-reverse-metrics-from-forward', 'props': ['C19'], 'tests': 'tests/test_path_computation_functions.py',
     'desc': 'z-a metrics of a bidirectional request taken from the forward path',
     'edits': [('gnpy/topology/request.py', "                'z-a-path-metric': path_metric(self.reversed_computed_path, self.path_request),",
                "                'z-a-path-metric': path_metric(self.computed_path, self.path_request),")]},
    {'id': 'c19-lowest-snr-is-mean', 'props': ['C19'], 'tests': 'tests/test_path_computation_functions.py',
     'desc': 'lowest SNR metric reports the average',
     'edits': [('gnpy/topology/request.py', "                    'accumulative-value': round(min(pth[-1].snr_01nm), 2)",
                "                    'accumulative-value': round(mean(pth[-1].snr_01nm), 2)")]},
    {'id': 'c19-aggregation-bandwidth', 'props': ['C19'], 'tests': 'tests/test_disjunction.py',
     'desc': 'aggregated requests keep the bandwidth of one of them',
     'edits': [('gnpy/topology/request.py', "                this_r.path_bandwidth += req.path_bandwidth\n", "")]},
    {'id': 'c19-csv-pass-on-average', 'props': ['C19'], 'tests': 'tests/test_parser.py',
     'desc': 'CSV pass flag computed on the average SNR instead of the worst channel',
     'edits': [('gnpy/topology/request.py', "            values[pass_field] = rsnr_min >= minosnr if rsnr_min != '' else rsnr >= minosnr",
                "            values[pass_field] = rsnr >= minosnr")]},
    {'id': 'c19-csv-pass-strict-at-threshold', 'props': ['C19'], 'tests': 'tests/test_parser.py',
     'desc': 'CSV pass flag strict: a worst channel exactly at the margin-inclusive threshold is exported as not passing',
     'edits': [('gnpy/topology/request.py', "            values[pass_field] = rsnr_min >= minosnr if rsnr_min != '' else rsnr >= minosnr",
                "            values[pass_field] = rsnr_min > minosnr if rsnr_min != '' else rsnr >= minosnr")]},
    {'id': 'c19-csv-reverse-from-forward', 'props': ['C19'], 'tests': 'tests/test_parser.py',
     'desc': 'CSV reverse-direction columns filled from the forward metrics (served requests)',
     'edits': [('gnpy/topology/request.py', """            if 'z-a-path-metric' in path_properties.keys():
                values.update(dict(zip(rev_path_metric_fields,
                                       (_jsontopath_metric(path_properties['z-a-path-metric'])))))""",
                """            if 'z-a-path-metric' in path_properties.keys():
                values.update(dict(zip(rev_path_metric_fields,
                                       (_jsontopath_metric(path_properties['path-metric'])))))""")]},
    {'id': 'c19-transponder-mode-from-request-format', 'props': ['C19'], 'tests': 'tests/test_path_computation_functions.py',
     'desc': 'blocked automatic-mode requests keep the mode of the request instead of the last explored one in the response',
     'edits': [('gnpy/topology/request.py', """                    elif pathreq.blocking_reason in BLOCKING_NOMODE:
                        pathreq.baud_rate = mode['baud_rate']
                        pathreq.tsp_mode = mode['format']""", """                    elif pathreq.blocking_reason in BLOCKING_NOMODE:
                        pathreq.baud_rate = mode['baud_rate']
                        pathreq.tsp_mode = pathreq.tsp_mode""")]},
    {'id': 'c20-west-loss-from-east', 'props': ['C20'], 'tests': 'tests/test_parser.py',
     'desc': 'west fibre built with the east loss coefficient',
     'edits': [('gnpy/tools/convert.py', "                   'loss_coef': fiber.west_lineic,", "                   'loss_coef': fiber.east_lineic,")]},
    {'id': 'c20-ila-direction-swapped', 'props': ['C20'], 'tests': 'tests/test_parser.py',
     'desc': 'ILA amplifier settings land on the amplifier of the opposite direction',
     'edits': [('gnpy/tools/convert.py', "                if e.to_city != to_city:\n                    direction = rev_direction",
                "                if e.to_city == to_city:\n                    direction = rev_direction")]},
    {'id': 'c20-blank-loose-is-strict', 'props': ['C20'], 'tests': 'tests/test_parser.py',
     'desc': 'a blank "is loose?" cell is read as strict',
     'edits': [('gnpy/tools/service_sheet.py', "                self.is_loose = v in ['', None, 'yes', 'Yes', 'YES']", "                self.is_loose = v in ['yes', 'Yes', 'YES']")]},
    {'id': 'c20-duplicate-eqpt-accepted', 'props': ['C20'], 'tests': 'tests/test_logger.py',
     'desc': 'duplicate Eqpt lines no longer rejected',
     'edits': [('gnpy/tools/convert.py', "                if nodea_nodez in possible_eqpt:\n                    duplicate_eqpt.append",
                "                if nodea_nodez in possible_eqpt and False:\n                    duplicate_eqpt.append")]},
    {'id': 'c20-west-defaults-not-east', 'props': ['C20'], 'tests': 'tests/test_parser.py',
     'desc': 'missing west connector values fall back to the class default instead of the east value',
     'edits': [('gnpy/tools/convert.py', """            v = clean_kwargs.get(k, v)
            setattr(self, k, v)
            k = 'west' + k.rsplit('east', maxsplit=1)[-1]
            v = clean_kwargs.get(k, v)
            setattr(self, k, v)

    def __eq__(self, link):""", """            dflt = v
            v = clean_kwargs.get(k, v)
            setattr(self, k, v)
            k = 'west' + k.rsplit('east', maxsplit=1)[-1]
            v = clean_kwargs.get(k, dflt if 'con_' in k else v)
            setattr(self, k, v)

    def __eq__(self, link):""")]},
    {'id': 'c20-bandwidth-units', 'props': ['C20'], 'tests': 'tests/test_parser.py',
     'desc': 'service bandwidth read as Mbit/s',
     'edits': [('gnpy/tools/service_sheet.py', "            self.path_bandwidth = request_param.path_bandwidth * 1e9", "            self.path_bandwidth = request_param.path_bandwidth * 1e6")]},
    {'id': 'c20-xlsx-int-impairment', 'props': ['C20'], 'tests': 'tests/test_parser.py',
     'desc': 'integer impairment id cell of an .xlsx workbook not handled',
     'edits': [('gnpy/core/utils.py', "    if isinstance(data, (int, float)):", "    if isinstance(data, float):")]},
]
