"""Monitor self-test: applies realistic property-breaking mutations to a scratch worktree of /repo and checks
that the named quick check fires (exit 1).  Usage:
    python3 -m vf.selftest.run [--only ID[,ID]] [--prop Cxx] [--tests] [--jobs N]
Nothing is ever changed in /repo itself; the worktree lives under /tmp and is removed afterwards."""
import argparse
import json
import os
import shutil
import subprocess
import sys
import tempfile
import time
from pathlib import Path

from vf.selftest.mutations import MUTATIONS

ROOT = Path(__file__).resolve().parent.parent.parent


def sh(cmd, **kw):
    return subprocess.run(cmd, shell=True, capture_output=True, text=True, **kw)


class StaleAnchor(Exception):
    pass


def apply_mutation(tree, m):
    for f, old, new in m['edits']:
        p = Path(tree) / f
        s = p.read_text()
        if s.count(old) != 1:
            raise StaleAnchor(f'mutation {m["id"]}: anchor found {s.count(old)} times in {f}')
        p.write_text(s.replace(old, new))


def main():
    ap = argparse.ArgumentParser()
    ap.add_argument('--only')
    ap.add_argument('--prop')
    ap.add_argument('--tests', action='store_true', help='also run the repository tests named by the mutation')
    ap.add_argument('--seed', default='0')
    ap.add_argument('--from-id', help='skip the mutations before this id')
    args = ap.parse_args()
    muts = MUTATIONS
    if args.only:
        muts = [m for m in muts if m['id'] in args.only.split(',')]
    if args.prop:
        muts = [m for m in muts if args.prop in m['props']]
    if args.from_id:
        ids = [m['id'] for m in muts]
        muts = muts[ids.index(args.from_id):]
    results = []
    stale = []
    for m in muts:
        tree = tempfile.mkdtemp(prefix='vf-st-', dir='/tmp')
        os.rmdir(tree)
        r = sh(f'git -C /repo worktree add --detach {tree} HEAD')
        if r.returncode:
            print(r.stderr)
            raise SystemExit(1)
        try:
            try:
                apply_mutation(tree, m)
            except StaleAnchor as e:
                print(str(e))
                stale.append(m['id'])
                continue
            row = {'id': m['id'], 'props': m['props'], 'desc': m['desc']}
            if args.tests and m.get('tests'):
                t = sh(f'cd {tree} && /venv/bin/python -m pytest -q -p no:cacheprovider -x {m["tests"]} 2>&1 | tail -2')
                row['repo_tests'] = t.stdout.strip().splitlines()[-1] if t.stdout.strip() else '?'
            for pid in m['props']:
                t0 = time.time()
                env = dict(os.environ, VERIF_REPO=tree, VERIF_SEED=args.seed, VERIF_EVIDENCE_DIR=tree + '-evidence')
                c = subprocess.run([str(ROOT / 'check'), pid, '--tier', 'quick'], env=env, capture_output=True,
                                   text=True, cwd=str(ROOT))
                mon = [l.strip() for l in c.stdout.splitlines() if l.strip().startswith('monitor=')]
                row[pid] = {'exit': c.returncode, 'monitors': mon[:3], 's': round(time.time() - t0, 1)}
            results.append(row)
            print(json.dumps(row))
        finally:
            sh(f'git -C /repo worktree remove --force {tree}')
            shutil.rmtree(tree, ignore_errors=True)
            shutil.rmtree(tree + '-evidence', ignore_errors=True)
    missed = [r['id'] for r in results if any(isinstance(v, dict) and v.get('exit') != 1 for v in r.values())]
    print(f'{len(results)} mutations, missed: {missed}, stale anchors: {stale}')
    return 1 if missed or stale else 0


if __name__ == '__main__':
    sys.exit(main())
