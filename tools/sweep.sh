#!/bin/bash
# usage: tools/sweep.sh <tier> <seed> [<seed> ...]   - runs every registered check, prints exit codes
cd "$(dirname "$0")/.."
tier=$1; shift
for seed in "$@"; do
  for p in C01 C02 C03 C04 C05 C06 C07 C08 C09 C10 C11 C12 C13 C14 C15 C16 C17 C18 C19 C20; do
    t0=$(date +%s)
    out=$(./check $p --tier $tier --seed $seed 2>&1); rc=$?
    t1=$(date +%s)
    echo "$p seed=$seed tier=$tier exit=$rc $((t1-t0))s $(echo "$out" | grep -E '^(VIOLATION|INCONCLUSIVE)' | head -2 | cut -c1-200 | tr '\n' ' ')"
  done
done
