#!/bin/bash
# usage: tools/seed_try.sh <Cxx> <k> [tier] [extra props...]
# Verifies a sub-agent's change k for property Cxx in its scratch worktree (demo passes clean / fails changed),
# then applies it to /repo, runs the check(s), and undoes it.  Prints a summary; nothing is committed to /repo.
set -u
P=$1; K=$2; TIER=${3:-quick}; shift; shift; shift || true
WT=/tmp/seed-$P; D=$WT/_seed
cd $WT || exit 9
git -C $WT checkout -q -- gnpy
echo "== demo on clean worktree"; PYTHONPATH=$WT timeout 900 /venv/bin/python $D/demo$K.py > /tmp/seed_demo_clean.txt 2>&1; echo "exit=$?"; tail -3 /tmp/seed_demo_clean.txt
git -C $WT apply $D/change$K.diff || { echo "patch does not apply in worktree"; exit 9; }
echo "== demo with change"; PYTHONPATH=$WT timeout 900 /venv/bin/python $D/demo$K.py > /tmp/seed_demo_changed.txt 2>&1; echo "exit=$?"; tail -5 /tmp/seed_demo_changed.txt
git -C $WT checkout -q -- gnpy
cd /verif
if [ -n "$(git -C /repo status --porcelain --untracked-files=no)" ]; then echo "/repo dirty, abort"; exit 9; fi
git -C /repo apply $D/change$K.diff || { echo "patch does not apply in /repo"; exit 9; }
for q in $P "$@"; do
  for seed in 0 1; do
    out=$(./check $q --tier $TIER --seed $seed 2>&1); rc=$?
    echo "== check $q tier=$TIER seed=$seed exit=$rc"; echo "$out" | grep -E "monitor=|^VIOLATION|^INCONCLUSIVE|^KNOWN" | cut -c1-260 | head -6
  done
done
git -C /repo checkout -- .
git -C /repo status --porcelain | head
