#!/usr/bin/env python3
"""usage: VF_COVER=/tmp/vfcov ./check Cxx ... (any number of runs), then tools/coverage_report.py /tmp/vfcov [file-substring]
Lists, per gnpy source file and function, the executable lines no workload executed."""
import json, sys, glob, os, collections

d = sys.argv[1]
flt = sys.argv[2] if len(sys.argv) > 2 else ''
seen = collections.defaultdict(set)
for f in glob.glob(os.path.join(d, '*.json')):
    for fn, ln in json.load(open(f)):
        seen[fn].add(ln)


def code_lines(code, out, qual=''):
    name = qual + ('.' if qual else '') + code.co_name if code.co_name != '<module>' else ''
    for _, _, ln in code.co_lines():
        if ln is not None:
            out[ln] = name
    for c in code.co_consts:
        if hasattr(c, 'co_lines'):
            code_lines(c, out, name)


tot = miss = 0
for fn in sorted(seen):
    if flt not in fn:
        continue
    src = open(fn).read()
    lines = {}
    code_lines(compile(src, fn, 'exec'), lines)
    missed = collections.defaultdict(list)
    for ln, func in sorted(lines.items()):
        tot += 1
        if ln not in seen[fn]:
            miss += 1
            missed[func].append(ln)
    n_exec = len(lines)
    print(f'== {fn}: {n_exec - sum(len(v) for v in missed.values())}/{n_exec} lines executed')
    for func, lns in missed.items():
        print(f'   {func or "<module>"}: {lns[:40]}{" ..." if len(lns) > 40 else ""}')
print(f'total {tot - miss}/{tot}')
