#!/usr/bin/env python3
"""Regenerates MANIFEST.json from the table below (run from /verif)."""
import json
from pathlib import Path

ROOT = Path(__file__).resolve().parent.parent

CHECKS = {
    'C01': dict(
        technique='runtime monitors: longdouble shadow model over random operation sequences + conservation checker '
                  'over recorded SpectralInformation operations and element crossings + receiver identity + the repository own test suite run as one more workload with the input-independent monitors on (pytest plugin)',
        text='Real SpectralInformation objects and real propagations are observed operation by operation; every '
             'observed state satisfies the split identity, every operation its conservation law. Exploration only: '
             'held on the executions observed (classes listed in the evidence).',
        note='Trusts numpy float64 arithmetic, the harness wrappers (snapshots taken before/after each call) and the '
             'longdouble shadow; launch power <= +10 dBm.', ref='3/C01'),
}

CHECKS['C02'] = dict(
    technique='runtime monitor: per-element, per-channel monotonicity checker over recorded crossings; bit-identity '
              'of the shares across passive elements and attenuation operations; differential con_out run + the repository own test suite run as one more workload with the input-independent monitors on (pytest plugin)',
    text='Every element crossing of every propagated path is compared before/after per channel; passive elements '
         'and every loss operation must leave the three shares bit-identical. Exploration: held on the crossings '
         'observed.',
    note='Trusts the snapshots taken by the class-level __call__ wrappers; 1e-12 relative tolerance on inverse ratios.',
    ref='3/C02')

CHECKS['C03'] = dict(
    technique='runtime monitor: recorded NliSolver.compute_nli calls vs independent closed-form reference model; '
              'metamorphic laws (cube law, monotonicity, order independence) on the real solver; history: the same fibre '
              'object crossed again after its length was changed',
    text='Each NLI evaluation made while a real Fiber is crossed is compared per channel with an independent scalar '
         'implementation of eq. 120/123 fed from the user-level fibre parameters; scaling laws are checked on the '
         'real solver. Exploration over generated fibres and combs.',
    note='Trusts the reference implementation (written from the paper), sys.monitoring call records; 1e-9 relative.',
    ref='3/C03')

CHECKS['C04'] = dict(
    technique='runtime monitor: recorded Edfa crossings vs independent amplifier reference model (effective gain, '
              'NF per model type, h.f.B.NF ASE recovered from snapshots); NF laws on gain sweeps; band-edge filter',
    text='Each crossing of a real amplifier object (every shipped model + synthetic libraries) is compared with an '
         'independent reference for the clamp, the total gain, p_max and the per-channel ASE; NF laws are checked on '
         'sweeps. Exploration with situation classes (model x saturated x gain region x tilt) in the evidence.',
    note='Trusts the reference NF models (docs + two-coil model) and the snapshots; OpenROADM NF only on uniform grids; '
         '0.05 dB allowance for the total gain under tilt/ripple.',
    ref='3/C04')

CHECKS['C05'] = dict(
    technique='runtime monitors: loss-budget checker over recorded fibre crossings; compositional accumulation '
              'oracle (isolated contributions, sum / root-sum-square, span-order permutations); Raman solver '
              'limit/convergence/lumped-once/pump-monotonicity/input-attenuation checks on the real solver; element-level '
              'values of the topology document compared with the fibres of the built network',
    text='Every fibre, ROADM and amplifier crossing of generated paths and hand-built heterogeneous lines is judged '
         'against an independent loss budget and the accumulation rule; the Raman solver is driven through its '
         'settings and compared with its low-power limit and across methods. Exploration.',
    note='Numerical (Euler) solver judged inside its own first-order error bound; perturbative series judged by '
         'convergence towards the numerical solution; tolerances and observed maxima are in the evidence.',
    ref='3/C05')

CHECKS['C06'] = dict(
    technique='runtime monitor: recorded Roadm crossings (propagated and directly driven) vs independent equaliser '
              'reading the configured documents; policy-uniqueness loads; same-object re-crossing histories + the repository own test suite run as one more workload with the input-independent monitors on (pytest plugin)',
    text='Every ROADM crossing observed is compared per channel with min(target+offset, input-path loss) where the '
         'target is resolved independently from the egress degree / node / library configuration; P_out<=P_in is '
         'asserted on every crossing; 0..3 policies at library and topology level are loaded. Exploration.',
    note='Trusts the independent target/impairment resolution written from docs/json.rst; channel centres inside the '
         'impairment profile ranges; 1e-9 dB.',
    ref='3/C06')

CHECKS['C07'] = dict(
    technique='runtime monitor: exactly-once / no-loss checker over channel identity tuples recorded at launch, '
              'after the band filter and after every element (depth-aware for multiband amplifiers); differential '
              'runs with shuffled supply order; invalid-spectrum rejection + the repository own test suite run as one more workload with the input-independent monitors on (pytest plugin)',
    text='The survivor set is computed independently from the amplifier bands of the route and compared with what '
         'the filter keeps; the identity list must then be identical at every element and at the receiver. '
         'Exploration over edge/gap/single-channel spectra on single-band, narrow-band and C+L networks.',
    note='Amplifier bands read from the loaded library; routes without amplifiers not judged.', ref='3/C07')

CHECKS['C08'] = dict(
    technique='runtime monitor: structural invariant checker hooked at the quiescent point after designed_network() '
              '(completeness, padding, equal splits, no bare junction, one-in/one-out chains, unchanged adjacency and '
              'reachability) over generated topologies x configurations; history: design, extend the designed object, design again',
    text='Every design of a generated well-formed topology is inspected as a whole against its input documents. '
         'Exploration: held on the designs observed; four listed known findings are reproduced by dedicated cases.',
    note='Well-formedness = docs/json.rst + loaders accept; Raman and lumped-loss fibres below max length in the main '
         'workload; listed findings in known_findings.json.', ref='3/C08')

CHECKS['C09'] = dict(
    technique='runtime monitor: independent OMS walker over the designed network at the post-design quiescent point '
              '(gain budget, documented power rule, operator gains) + propagated design comb compared with the '
              'design powers at every amplifier / ROADM output',
    text='Every amplifier of every single-band OMS of generated designs is re-derived by an independent walker written '
         'from docs/json.rst and the OFC 19 rule; the design load is then propagated and the observed signal powers '
         'compared with reference + offset - VOA. Exploration.',
    note='Multiband and Raman OMS skipped (counted); offsets on rounding ties and automatic-VOA models not judged for '
         'the rule; one listed known finding (step coarsening).', ref='3/C09')
CHECKS['C10'] = dict(
    technique='runtime monitor: recorded set_one_amplifier / select_edfa calls judged by an independent oracle '
              '(permitted set from the documents, data-sheet capability, reference NF model); selection targets cross-checked '
              'against the designed state recorded at the call boundary; multiband preselection oracle on synthetic groups; '
              'history: library edited in place between two designs',
    text='Every amplifier selection made by auto-design on synthetic overlapping libraries with restrictions at '
         'three levels is recorded and re-judged: membership, Raman rule, capability, NF optimality. Exploration.',
    note='Margins within 1e-9 dB of zero and NF ties not judged; NF optimality for gain-only NF models; multiband '
         'preselection judged when at least one permitted group can deliver every band; two listed known findings on '
         'multiband auto-selection.', ref='3/C10')
CHECKS['C11'] = dict(
    technique='runtime monitor: returned routes of the real path computation judged by an independent exhaustive '
              'ROADM-level search (validity, include order, optimal fibre length, STRICT/LOOSE semantics, reverse path); '
              'routes of requests inside synchronisation groups judged for the route clauses (real, loop-free, STRICT)',
    text='Each request of generated batches on generated meshes is compared with the optimum over all simple '
         'constraint-satisfying routes enumerated independently. Exploration.',
    note='Whole-kilometre fibre lengths (exact ties); undefined LOOSE/STRICT mixes not judged; Raman-amplified spans in a '
         'share of the meshes.', ref='3/C11')

CHECKS['C12'] = dict(
    technique='runtime monitor: returned routes per synchronisation group checked for shared unordered ROADM links; '
              'brute-force existence oracle over all simple routes for single pairs; raised errors cross-checked',
    text='Every group of every generated batch is judged for link-disjointness in both directions; for single pairs '
         'the code must return a disjoint STRICT-respecting pair iff the exhaustive search finds one. Exploration.',
    note='No parallel links; completeness only for single pairs; one listed known finding (STRICT include inside an '
         'OMS for grouped requests).', ref='3/C12')

CHECKS['C13'] = dict(
    technique='runtime monitors on the real path-request flow: receiver GSNR / penalty recomputation from recorded '
              'arrays; differential oracle (every candidate mode through the fixed-mode flow on a fresh copy, '
              'thresholds placed adversarially around the measured metric and, for the fixed mode, exactly on it) for verdicts and automatic selection',
    text='Each request is run through planning(); the verdict and the selected mode must agree with an oracle that '
         'knows, by construction, on which side of each threshold every mode lies. Exploration.',
    note='Ties not generated; the fresh fixed-mode evaluation is the reference; one listed known finding (same baud '
         'rate, different power offsets).', ref='3/C13')
CHECKS['C14'] = dict(
    technique='runtime monitor: histories of the real assignment routine - stepped request by request (every OMS map '
              'recorded after each step) or called once with the whole batch as planning() does (outcomes and final maps '
              'recorded) - replayed against an executable allocator model (history + model checker); the '
              "repository's own tests run with a call-boundary recorder on pth_assign_spectrum (no double booking, "
              "maps after = maps before + accepted ranges)",
    text='The outcome of each request and the OMS maps are compared with a set-based model: disjointness both '
         'directions, guard bands, usable slots, enough slots, first fit by brute force, fixed values honoured, '
         'blocked => unchanged, occupancy = union. Exploration over synthetic histories and planning() batches.',
    note='First-fit optimality judged for fully free requests; usable slots / guard limits taken from the initial maps.',
    ref='3/C14')
CHECKS['C15'] = dict(
    technique='runtime monitors: icontract class invariant on the real Bitmap; structural checker on build_oms_list '
              'output with an exact usable-band oracle (slot usable iff its central frequency lies in a common band; '
              'on-grid and off-grid band edges, two band plans on one OMS, one-directional lines); history: second build after '
              'the designed object was extended; alignment checker on random / equal-width / nested map sets + the repository own test suite run as one more workload with the input-independent monitors on (pytest plugin)',
    text='OMS partition, end points, reverse pairing, common slot range and usable-band marking are checked on '
         'networks whose OMS differ in bands; grid alignment on maps of different extents. Exploration.',
    note='Amplifier bands from the loaded library; amplifiers of one line share some band; 1 kHz float slack on band edges.', ref='3/C15')
CHECKS['C16'] = dict(
    technique='runtime monitor: history checker over repeated planning() runs on one network object (alone / first / '
              'last / random orders, near-duplicate twin requests, generalised-GN batches, synchronisation vectors over batch '
              'orders, imposed slots) + canonical network digest (incl. per-band amplifiers of multiband elements) + '
              'attribute-level snapshot of the process-wide SimParams + count of propagations touching network objects',
    text='Every request result (route, mode, metrics, verdict) must be identical in every batch composition and the '
         'network digest unchanged after every run. Exploration over batches with saturating and blocked requests.',
    note='No aggregatable duplicates; batches with synchronisation vectors compared over orders of the whole batch only; '
         'spectrum labels and spectrum blocking excluded.',
    ref='3/C16')
CHECKS['C17'] = dict(
    technique='runtime monitor: idempotence checker over recorded exports (fresh design twice, export/reload/redesign '
              'rounds) + SimParams before/after every design + comparison of every propagated figure (GSNR, OSNR, power, '
              'CD, PMD, PDL, latency) between a design and its reloaded form',
    text='Generated inputs are designed, exported, read back as load_network does and redesigned for 1..3 rounds under '
         'random simulation parameters. Exploration; two listed known findings (EOL re-added; Raman upstream amp).',
    note='Numbers to the export rounding, structure exact, dB figures 1e-4 dB, CD/PMD/PDL/latency 1e-6 relative.', ref='3/C17')
CHECKS['C18'] = dict(
    technique='runtime monitors: idempotence checker over recorded conversions, leaf-by-leaf comparison against the '
              'declared fraction digits, loader-equivalence differential, qualified-identity differential, alias checker; '
              'libyang validation as gate',
    text='Generated documents of the five kinds are converted back and forth and loaded from either form. Exploration.',
    note='Valid document = passes libyang validation; loader objects compared with 1e-5 relative slack.', ref='3/C18')

CHECKS['C19'] = dict(
    technique='runtime monitor: response document and CSV of real planning() runs compared with an independent '
              'response builder reading the propagated paths, both receivers and the request objects; aggregation '
              'recomputed from the input; CSV pass flag differential with a moved threshold (between worst and average channel, exactly on the worst channel, 0.01 dB above it); event log of every '
              'propagation (figures copied when it ends) compared with what is reported; reported mode vs reported figures '
              '(baud-rate gap between the 0.1 nm and the in-band figures)',
    text='Every response entry and CSV row of generated batches (served, every blocking reason, bidirectional, '
         'aggregated, multi-slot) is rebuilt independently and compared exactly. Exploration.',
    note='Order of ids inside a joined id not judged; two-decimal values compared with a tie-tolerant equality (at most two decimals, within half a unit of the last place).', ref='3/C19')
CHECKS['C20'] = dict(
    technique='runtime monitor: generated workbooks converted by the real converter and compared with an independent '
              'workbook model (elements, per-direction values, wiring, requests); one-rule-violated workbooks must '
              'raise; .xls vs .xlsx differential on the shipped files; converted topologies are loaded and designed',
    text='Each generated workbook / service sheet is one observation judged against the description it was written '
         'from. Exploration.',
    note='xlrd path only with shipped .xls files (no offline .xls writer); service routes name ROADM sites.', ref='3/C20')

NOT_APPLICABLE = {
}

PENDING_REASON = 'check not built yet in this session (planned in DESIGN.md section 3); not claimed until it exists'


def main():
    props = [json.loads(l) for l in (ROOT / 'properties.jsonl').read_text().splitlines() if l.strip()]
    checks = []
    na = []
    for p in props:
        pid = p['id']
        if pid in CHECKS:
            c = CHECKS[pid]
            checks.append({
                'property_id': pid,
                'quick_cmd': f'./check {pid} --tier quick',
                'thorough_cmd': f'./check {pid} --tier thorough',
                'evidence_file': f'evidence/{pid}.json',
                'replay_cmd_template': f'./check {pid} --replay {{path}}',
                'engine': 'vf',
                'level_claimed': {'category': 'exploration', 'text': c['text'], 'design_ref': f'DESIGN.md {c["ref"]}'},
                'level_note': c['note'],
                'technique': c['technique'],
            })
        else:
            na.append({'property_id': pid, 'reason': NOT_APPLICABLE.get(pid, PENDING_REASON)})
    manifest = {
        'version': 1,
        'setup_cmd': './setup.sh',
        'hooks': {
            'guard': 'GNPY_VERIF',
            'enable': 'no source hooks: all monitors are attached from the harness at import time '
                      '(class-level wrappers, icontract, sys.monitoring); the guard name is reserved and unused',
            'baseline_off_cmd': 'cd /repo && /venv/bin/python -m pytest -ra -q -p no:cacheprovider --timeout=900 '
                                '--continue-on-collection-errors',
            'source_commits': [],
            'add_only': True,
        },
        'engines': [{'name': 'vf', 'path': 'vf/', 'serves_properties': sorted(CHECKS),
                     'kind_free_text': 'runtime monitoring harness: seeded workload generators, monitors attached to '
                                       'the real gnpy classes, reference-model and event-log checkers'}],
        'checks': checks,
        'notes': 'Runtime monitoring only; sanitizers/race detectors do not apply (pure Python, single thread). '
                 'Known findings: known_findings.json. Exit 2 = inconclusive.',
        'not_applicable': na,
    }
    (ROOT / 'MANIFEST.json').write_text(json.dumps(manifest, indent=1) + '\n')
    print(f'{len(checks)} checks, {len(na)} not claimed')


if __name__ == '__main__':
    main()
