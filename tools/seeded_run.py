#!/usr/bin/env python3
"""Re-runs every stored independent breaking change (seeded/<id>/patch.diff) against the checks.

For each change: a scratch git worktree of /repo's HEAD is made under /tmp, patch.diff is applied there, the author's
demo.py is run on it (must fail), `./check <property> --tier quick --seed 0/1` run with VERIF_REPO pointing at it (and the
thorough tier if quick misses; evidence goes to a scratch directory), and the worktree is removed.  Several changes are
processed in parallel.  With --in-repo the change is applied to /repo itself instead (`git -C /repo apply`, checks,
`git -C /repo checkout -- .`), one at a time.  Writes seeded/RESULTS.json and seeded/README.md.
Nothing is committed to /repo.  usage: tools/seeded_run.py [--in-repo] [--jobs N] [id ...]
"""
import json, os, subprocess, sys, re
from pathlib import Path

ROOT = Path(__file__).resolve().parent.parent
REPO = '/repo'


def sh(cmd, **kw):
    return subprocess.run(cmd, shell=True, capture_output=True, text=True, **kw)


def run_check(prop, tier, seed, tree=None):
    env = dict(os.environ)
    if tree:
        env.update(VERIF_REPO=tree, VERIF_EVIDENCE_DIR=tree + '-evidence')
    r = sh(f'./check {prop} --tier {tier} --seed {seed}', cwd=ROOT, env=env)
    mons = sorted(set(re.findall(r'monitor=([\w-]+(?::[\w-]+)?)', r.stdout)))
    return r.returncode, mons


def one_in_worktree(sid, head):
    d = ROOT / 'seeded' / sid
    meta = json.loads((d / 'meta.json').read_text())
    prop = meta['breaks_property']
    if meta.get('superseded_by_fix'):
        return sid, {'repo_head': head, 'applies': None, 'property': prop, 'caught': None,
                     'superseded_by_fix': meta['superseded_by_fix']}
    tree = f'/tmp/seedrun-{sid}'
    sh(f'git -C {REPO} worktree remove --force {tree}')
    r = sh(f'git -C {REPO} worktree add --detach {tree} HEAD')
    if r.returncode:
        return sid, {'repo_head': head, 'applies': False, 'error': r.stderr.strip()[:300]}
    try:
        a = sh(f'git -C {tree} apply {d / "patch.diff"}')
        if a.returncode:
            return sid, {'repo_head': head, 'applies': False, 'error': a.stderr.strip()[:300]}
        demo = sh(f'PYTHONPATH={tree} timeout 600 /venv/bin/python {d / "demo.py"}', cwd='/tmp')
        runs, caught = {}, False
        for seed in (0, 1):
            rc, mons = run_check(prop, 'quick', seed, tree)
            runs[f'quick seed {seed}'] = {'exit': rc, 'monitors': mons}
            caught = caught or rc == 1
        if not caught:
            rc, mons = run_check(prop, 'thorough', 0, tree)
            runs['thorough seed 0'] = {'exit': rc, 'monitors': mons}
            caught = rc == 1
        return sid, {'repo_head': head, 'applies': True, 'property': prop, 'caught': caught, 'runs': runs,
                     'demo_exit_with_patch': demo.returncode}
    finally:
        sh(f'git -C {REPO} worktree remove --force {tree}')
        sh(f'rm -rf {tree} {tree}-evidence')


def main():
    args = sys.argv[1:]
    in_repo = '--in-repo' in args
    jobs = 3
    if '--jobs' in args:
        jobs = int(args[args.index('--jobs') + 1])
        del args[args.index('--jobs'):args.index('--jobs') + 2]
    args = [a for a in args if a != '--in-repo']
    ids = args or sorted(p.name for p in (ROOT / 'seeded').iterdir() if (p / 'patch.diff').exists())
    res_path = ROOT / 'seeded' / 'RESULTS.json'
    results = json.loads(res_path.read_text()) if res_path.exists() else {}
    if not in_repo:
        from concurrent.futures import ThreadPoolExecutor
        head = sh(f'git -C {REPO} rev-parse --short HEAD').stdout.strip()
        with ThreadPoolExecutor(jobs) as ex:
            for sid, res in ex.map(lambda i: one_in_worktree(i, head), ids):
                results[sid] = res
                print(sid, 'superseded' if res.get('superseded_by_fix') else 'caught' if res.get('caught') else 'MISSED',
                      res.get('runs', res.get('error', '')), 'demo exit', res.get('demo_exit_with_patch'), flush=True)
        res_path.write_text(json.dumps(results, indent=1, sort_keys=True) + '\n')
        write_readme(results)
        return
    if sh(f'git -C {REPO} status --porcelain --untracked-files=no').stdout.strip():
        sys.exit('/repo is dirty')
    head = sh(f'git -C {REPO} rev-parse --short HEAD').stdout.strip()
    for sid in ids:
        d = ROOT / 'seeded' / sid
        meta = json.loads((d / 'meta.json').read_text())
        prop = meta['breaks_property']
        if meta.get('superseded_by_fix'):
            results[sid] = {'repo_head': head, 'applies': None, 'property': prop, 'caught': None,
                            'superseded_by_fix': meta['superseded_by_fix']}
            print(sid, 'superseded by fix', meta['superseded_by_fix'])
            continue
        a = sh(f'git -C {REPO} apply {d / "patch.diff"}')
        if a.returncode:
            results[sid] = {'repo_head': head, 'applies': False, 'error': a.stderr.strip()[:300]}
            print(sid, 'DOES NOT APPLY')
            continue
        try:
            runs = {}
            caught = False
            for seed in (0, 1):
                rc, mons = run_check(prop, 'quick', seed)
                runs[f'quick seed {seed}'] = {'exit': rc, 'monitors': mons}
                caught = caught or rc == 1
            if not caught:
                rc, mons = run_check(prop, 'thorough', 0)
                runs['thorough seed 0'] = {'exit': rc, 'monitors': mons}
                caught = rc == 1
        finally:
            sh(f'git -C {REPO} checkout -- .')
        results[sid] = {'repo_head': head, 'applies': True, 'property': prop, 'caught': caught, 'runs': runs}
        print(sid, 'caught' if caught else 'MISSED', runs)
    res_path.write_text(json.dumps(results, indent=1, sort_keys=True) + '\n')
    write_readme(results)


def write_readme(results):
    rows = []
    for p in sorted((ROOT / 'seeded').iterdir()):
        if not (p / 'meta.json').exists():
            continue
        m = json.loads((p / 'meta.json').read_text())
        r = results.get(p.name, {})
        q = [f"{k}: exit {v['exit']} ({', '.join(v['monitors']) or '-'})" for k, v in r.get('runs', {}).items()]
        first = 'missed by the first version, caught after strengthening' if m.get('note', '').startswith('MISSED') \
            else 'caught by the check as it stood'
        rows.append(f"| {p.name} | {m['breaks_property']} | {m['what_it_breaks']} | {m['needs_to_manifest']} | {first} | "
                    f"{('superseded by /repo fix ' + r['superseded_by_fix']) if r.get('superseded_by_fix') else 'caught' if r.get('caught') else ('does not apply' if r.get('applies') is False else 'MISSED')}: "
                    f"{'; '.join(q)} |")
    txt = ['# Independently written property-breaking changes', '',
           'Each directory holds one change to oopt-gnpy written by a fresh sub-agent that was given only the text of one',
           'property and a scratch git worktree of /repo (nothing from /verif): `patch.diff` (applies to /repo with',
           '`git apply`), `demo.py` (the author\'s stand-alone demonstration: exits 0 / PASS on the clean tree, 1 / FAIL with',
           'the patch), `NOTES.md` (the author\'s notes for both of its changes, including the stock-suite results with the',
           'change) and `meta.json` (which property it breaks, what it needs to manifest, what was run, the result).',
           'None of these changes is ever committed to /repo. `tools/seeded_run.py` re-applies each one to /repo, runs the',
           'check of its property (quick tier seeds 0 and 1, thorough seed 0 only if quick misses), undoes it and rewrites',
           '`RESULTS.json` and this table.', '',
           '| id | property | what it breaks | needs, to manifest | history | last run |', '|---|---|---|---|---|---|'] + rows
    (ROOT / 'seeded' / 'README.md').write_text('\n'.join(txt) + '\n')


if __name__ == '__main__':
    main()
