#!/usr/bin/env python3
"""usage: tools/seed_store.py Cxx k --what ... --needs ... --ran ... --result ...   (stores a confirmed sub-agent change)"""
import argparse, json, shutil
from pathlib import Path
ap = argparse.ArgumentParser()
ap.add_argument('prop'); ap.add_argument('k')
ap.add_argument('--what', required=True); ap.add_argument('--needs', required=True)
ap.add_argument('--ran', required=True); ap.add_argument('--result', required=True)
ap.add_argument('--also', default='')
ap.add_argument('--note', default='')
a = ap.parse_args()
src = Path(f'/tmp/seed-{a.prop}/_seed')
dst = Path(f'/verif/seeded/{a.prop}-{a.k}')
dst.mkdir(parents=True, exist_ok=True)
shutil.copy(src / f'change{a.k}.diff', dst / 'patch.diff')
shutil.copy(src / f'demo{a.k}.py', dst / 'demo.py')
if (src / 'NOTES.md').exists():
    shutil.copy(src / 'NOTES.md', dst / 'NOTES.md')
meta = {'id': f'{a.prop}-{a.k}', 'breaks_property': a.prop, 'what_it_breaks': a.what, 'needs_to_manifest': a.needs,
        'author': 'independent sub-agent given only the property text and a scratch worktree',
        'confirmed': 'demo.py exits 0/PASS on the clean scratch worktree and 1/FAIL with patch.diff applied; '
                     'the sub-agent reports the stock test suite unchanged (same failures as the clean tree)',
        'what_i_ran': a.ran, 'result': a.result}
if a.note:
    meta['note'] = a.note
if a.also:
    meta['other_properties_that_also_fire'] = a.also
(dst / 'meta.json').write_text(json.dumps(meta, indent=1) + '\n')
print('stored', dst)
