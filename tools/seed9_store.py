#!/usr/bin/env python3
"""usage: tools/seed3_store.py Cxx k --what ... --needs ... --result ... [--note ...] [--also ...]
Stores the confirmed change k (1|2) of the ninth-round sub-agent for Cxx as seeded/Cxx-(k+4)."""
import argparse, json, shutil
from pathlib import Path
ap = argparse.ArgumentParser()
ap.add_argument('prop'); ap.add_argument('k', type=int)
ap.add_argument('--what', required=True); ap.add_argument('--needs', required=True)
ap.add_argument('--result', required=True)
ap.add_argument('--also', default=''); ap.add_argument('--note', default='')
a = ap.parse_args()
src = Path(f'/tmp/s9out/{a.prop}')
sid = f'{a.prop}-{a.k + 13}'
dst = Path(f'/verif/seeded/{sid}')
dst.mkdir(parents=True, exist_ok=True)
shutil.copy(src / f'change{a.k}.diff', dst / 'patch.diff')
shutil.copy(src / f'demo{a.k}.py', dst / 'demo.py')
if (src / 'NOTES.md').exists():
    shutil.copy(src / 'NOTES.md', dst / 'NOTES.md')
meta = {'id': sid, 'breaks_property': a.prop, 'what_it_breaks': a.what, 'needs_to_manifest': a.needs,
        'author': 'independent sub-agent (ninth round) given only the property text and a scratch worktree',
        'confirmed': 'demo.py exits 0/PASS on the clean scratch worktree and 1/FAIL with patch.diff applied (re-run by me); '
                     'the sub-agent reports the stock test suite unchanged (6 failed / 774 passed, the same 6 as the clean tree)',
        'what_i_ran': f'tools/seed9_try.sh {a.prop} {a.k}: demo on the clean and on the patched scratch worktree, then '
                      f'VERIF_REPO=<patched worktree> ./check {a.prop} --tier quick --seed 0 and --seed 1; later re-run by '
                      'tools/seeded_run.py (git -C /repo apply, checks, git -C /repo checkout -- .)',
        'result': a.result}
if a.note:
    meta['note'] = a.note
if a.also:
    meta['other_properties_that_also_fire'] = a.also
(dst / 'meta.json').write_text(json.dumps(meta, indent=1) + '\n')
print('stored', dst)
