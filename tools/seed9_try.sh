#!/bin/bash
# usage: tools/seed3_try.sh <Cxx> <k> [tier] [extra props...]      (ninth round: worktree /tmp/s9-Cxx, output /tmp/s9out/Cxx)
# Verifies a sub-agent's change k for property Cxx in its scratch worktree (demo passes clean / fails changed), then runs
# the check(s) with VERIF_REPO pointing at the patched worktree (evidence goes to a scratch directory), and undoes it.
set -u
P=$1; K=$2; TIER=${3:-quick}; shift; shift; shift || true
WT=/tmp/s9-$P; D=/tmp/s9out/$P
cd $WT || exit 9
git -C $WT checkout -q -- . ; rm -f $WT/tests/data/testService_services.json
[ -z "$(git -C $WT status --porcelain --untracked-files=no)" ] || { echo "worktree dirty"; exit 9; }
echo "== demo on clean worktree"; PYTHONPATH=$WT timeout 900 /venv/bin/python $D/demo$K.py > $D/demo${K}_clean.txt 2>&1; echo "exit=$?"; tail -3 $D/demo${K}_clean.txt
git -C $WT apply $D/change$K.diff || { echo "patch does not apply in worktree"; exit 9; }
echo "== demo with change"; PYTHONPATH=$WT timeout 900 /venv/bin/python $D/demo$K.py > $D/demo${K}_changed.txt 2>&1; echo "exit=$?"; tail -5 $D/demo${K}_changed.txt
cd /verif
for q in $P "$@"; do
  for seed in 0 1; do
    out=$(VERIF_REPO=$WT VERIF_EVIDENCE_DIR=/tmp/s9out/ev ./check $q --tier $TIER --seed $seed 2>&1); rc=$?
    echo "== check $q tier=$TIER seed=$seed exit=$rc"; echo "$out" | grep -E "monitor=|^VIOLATION|^INCONCLUSIVE|^KNOWN" | cut -c1-260 | head -8
  done
done
git -C $WT checkout -q -- .
git -C $WT status --porcelain --untracked-files=no | head
